"""Scenario engine shared by the connection-lifecycle properties (C05, C07, C08, C09, C19).

A scenario = a concrete stage prefix followed by L events chosen by (symbolic) integers from the
alphabet below.  Device-byte events accumulate into one pending chunk which is delivered as a
single data_received call by FLUSH or, implicitly, before any non-device event -- so "frames in
the same chunk", "two chunks in the same loop turn" and "one loop iteration in between" are all
expressible.  Monitors are callables run after every event and after every single loop iteration.
"""
from __future__ import annotations

from aioesphomeapi.connection import ConnectionState
from aioesphomeapi.core import APIConnectionError

from vf import scen
from vf.scen import CLOSED, CONNECTED, HS, INIT, OPENED, World, outcome

# ---- alphabet
DRAIN, TURN, TIMER, START, FINISH, DISCONNECT, FORCE, CANCEL, CONNECT_OK, CONNECT_ERR = range(10)
D_HELLO, D_CONNECT, D_GARBAGE, D_DISCREQ, D_DISCRESP, D_MSG, D_BADPAYLOAD, EOF, RESET, WRITEFAIL, FLUSH = range(10, 21)
D_CONNECT_BAD, D_NOISEMARK, RESOLVE_OK, CANCEL_DISC, LONGWAIT, D_PINGREQ, REQUEST, D_DEVINFO, RESOLVE_ERR, CANCEL_REQ = range(21, 31)
NEV = 31
NAMES = ["DRAIN", "TURN", "TIMER", "START", "FINISH", "DISCONNECT", "FORCE", "CANCEL", "CONNECT_OK", "CONNECT_ERR",
         "D_HELLO", "D_CONNECT", "D_GARBAGE", "D_DISCREQ", "D_DISCRESP", "D_MSG", "D_BADPAYLOAD", "EOF", "RESET",
         "WRITEFAIL", "FLUSH", "D_CONNECT_BAD", "D_NOISEMARK", "RESOLVE_OK", "CANCEL_DISC", "LONGWAIT", "D_PINGREQ", "REQUEST", "D_DEVINFO", "RESOLVE_ERR", "CANCEL_REQ"]
DEVICE_BYTES = {
    D_HELLO: scen.HELLO_OK, D_CONNECT: scen.CONNECT_OK, D_GARBAGE: scen.GARBAGE, D_DISCREQ: scen.DISC_REQ,
    D_DISCRESP: scen.DISC_RESP, D_MSG: scen.SENSOR, D_BADPAYLOAD: scen.BAD_PAYLOAD, D_CONNECT_BAD: scen.CONNECT_BAD,
    D_NOISEMARK: scen.NOISE_MARK, D_PINGREQ: scen.PING_REQ, D_DEVINFO: scen.DEVINFO,
}

# stages
ST_FRESH, ST_CONNECTING, ST_OPENED, ST_HELLO_SENT, ST_CONNECTED, ST_DISCONNECTING, ST_RESOLVING, ST_RESOLVING_MDNS = range(8)
STAGE_NAMES = ["fresh", "connecting", "socket-opened", "hello-sent", "connected", "disconnecting", "resolving", "resolving via the real resolver (mDNS request in flight)"]


class Scenario:
    def __init__(self, stage: int, *, login: bool = True, world_kw=None):
        world_kw = dict(world_kw or {})
        if stage == ST_RESOLVING_MDNS:
            world_kw["real_resolver"] = True
        self.w = World(**world_kw)
        self.loop = self.w.loop
        self.conn = self.w.new_connection()
        self.login = login
        self.monitors: list = []
        self.pending = b""
        self.tasks: list = []  # (kind, task, info dict)
        self.trace: list = []
        self.returned_state: list = []  # (kind, state right after the awaited phase returned normally)
        self.stage = stage
        self.sub_log: list = []  # messages delivered to the test subscriber: (virtual time, conn state at delivery)
        self.cancelled_by_harness: set = set()
        self.probe_raise = False  # the state subscriber raises (an application bug): asyncio hands the exception to connection_lost
        self.pending_evs: list = []  # device events making up the pending chunk
        self.chunks: list = []  # (list of device events, connection state before delivery)
        self.subscribe_probe()
        self._setup(stage)

    # ---- helpers
    def observe(self) -> None:
        for m in self.monitors:
            m(self)

    def drain(self) -> None:
        n = 0
        while self.loop._ready and n < 300:
            self.loop.turn()
            self.observe()
            n += 1

    def spawn(self, kind: str, coro_fn):
        info = {"t_start": self.loop.time()}
        conn = self.conn
        rs = self.returned_state

        async def wrapper():
            info["started"] = True
            info["t_start"] = self.loop.time()
            try:
                r = await coro_fn()
            finally:
                info["t_end"] = self.loop.time()
            rs.append((kind, conn.connection_state))
            return r

        t = self.loop.create_task(wrapper())
        self.tasks.append((kind, t, info))
        return t

    def _phase_pending(self) -> bool:
        return any(k in ("start", "finish") and not t.done() for k, t, _ in self.tasks)

    def tasks_of(self, kind: str) -> list:
        return [t for k, t, _ in self.tasks if k == kind]

    def flush(self) -> bool:
        if not self.pending:
            return False
        data, self.pending = self.pending, b""
        self.chunks.append((self.pending_evs, self.conn.connection_state))
        self.pending_evs = []
        ok = self.w.feed(data)
        self.observe()
        return ok

    def subscribe_probe(self) -> None:
        """a subscriber for the ordinary state message, to observe deliveries after close."""
        from aioesphomeapi.api_pb2 import SensorStateResponse

        conn = self.conn

        def on_msg(_m):
            self.sub_log.append((self.loop.time(), conn.connection_state))
            if self.probe_raise:
                raise ValueError("bug in a subscriber callback")

        conn.add_message_callback(on_msg, (SensorStateResponse,))

    # ---- stage prefix (concrete)
    def _setup(self, stage: int) -> None:
        w = self.w
        if stage == ST_FRESH:
            return
        if stage in (ST_RESOLVING, ST_RESOLVING_MDNS):
            w.resolve_mode = "pending"
            self.spawn("start", self.conn.start_connection)
            self.drain()
            return
        self.spawn("start", self.conn.start_connection)
        self.drain()
        if stage == ST_CONNECTING:
            return
        w.complete_connect()
        self.drain()
        if stage == ST_OPENED:
            return
        login = self.login
        self.spawn("finish", lambda: self.conn.finish_connection(login=login))
        self.drain()
        if stage == ST_HELLO_SENT:
            return
        w.feed(scen.HELLO_OK + (scen.CONNECT_OK if login else b""))
        self.drain()
        if stage == ST_CONNECTED:
            return
        self.spawn("disconnect", self.conn.disconnect)
        self.drain()

    # ---- one event; returns False when the event is not enabled in the current situation
    def apply(self, ev: int) -> bool:
        w, conn, loop = self.w, self.conn, self.loop
        self.trace.append(NAMES[ev])
        if ev in DEVICE_BYTES:
            tr = w.transport
            if tr is None or tr.closing or not tr.made:
                return False
            self.pending += DEVICE_BYTES[ev]
            self.pending_evs.append(ev)
            return True
        flushed = self.flush()
        if ev == FLUSH:
            return flushed
        if ev == DRAIN:
            if not loop._ready:
                return False
            self.drain()
        elif ev == TURN:
            if not loop._ready:
                return False
            loop.turn()
        elif ev == TIMER:
            self.drain()
            if loop.next_timer() is None:
                return False
            loop.turn()
            self.observe()
            self.drain()
        elif ev == START:
            # APIConnection is only driven through APIClient, which never issues a second phase
            # call while one is pending: a repeated call is explored only after the previous ended
            if len(self.tasks_of("start")) >= 2 or self._phase_pending():
                return False
            self.spawn("start", conn.start_connection)
        elif ev == FINISH:
            if len(self.tasks_of("finish")) >= 2 or self._phase_pending():
                return False
            login = self.login
            self.spawn("finish", lambda: conn.finish_connection(login=login))
        elif ev == DISCONNECT:
            if len(self.tasks_of("disconnect")) >= 2:
                return False
            self.spawn("disconnect", conn.disconnect)
        elif ev == FORCE:
            conn.force_disconnect()
        elif ev == CANCEL:
            cands = [t for k, t, _ in self.tasks if k in ("start", "finish") and not t.done()]
            if not cands:
                return False
            cands[-1].cancel()
            self.cancelled_by_harness.add(id(cands[-1]))
        elif ev == CANCEL_DISC:
            cands = [t for k, t, _ in self.tasks if k == "disconnect" and not t.done()]
            if not cands:
                return False
            cands[-1].cancel()
            self.cancelled_by_harness.add(id(cands[-1]))
        elif ev == CONNECT_OK:
            if not w.complete_connect():
                return False
        elif ev == CONNECT_ERR:
            if not w.fail_connect():
                return False
        elif ev == RESOLVE_OK:
            if not w.complete_resolve():
                return False
        elif ev == EOF:
            tr = w.transport
            if tr is None or tr.closing or not tr.made:
                return False
            tr.feed_eof()
        elif ev == RESET:
            tr = w.transport
            if tr is None or tr.closing or not tr.made:
                return False
            tr.feed_reset()
        elif ev == REQUEST:
            if len(self.tasks_of("request")) >= 2:
                return False
            from aioesphomeapi.api_pb2 import DeviceInfoRequest, DeviceInfoResponse

            self.spawn("request", lambda: conn.send_message_await_response(DeviceInfoRequest(), DeviceInfoResponse))
        elif ev == CANCEL_REQ:
            cands = [t for k, t, _ in self.tasks if k == "request" and not t.done()]
            if not cands:
                return False
            cands[-1].cancel()
            self.cancelled_by_harness.add(id(cands[-1]))
        elif ev == RESOLVE_ERR:
            done = False
            for f in w.resolve_futs:
                if not f.done():
                    f.set_exception(OSError("resolver failed"))
                    done = True
                    break
            if not done:
                return False
        elif ev == LONGWAIT:
            # the device stays silent for 7 keepalive periods (every timer due in between fires)
            self.drain()
            target = loop.time() + 7 * self.w.params.keepalive
            while True:
                t = loop.next_timer()
                if t is None or t._when > target:
                    break
                loop.turn()
                self.observe()
                self.drain()
            loop._vnow = target
        elif ev == WRITEFAIL:
            tr = w.transport
            if tr is None or tr.closing or tr.fail_writes is not None:
                return False
            tr.fail_writes = OSError("write failed")
        self.observe()
        return True

    def run_out(self, max_steps: int = 60) -> bool:
        """let virtual time pass until every spawned call has finished; False = deadlock (a call is
        pending, nothing is ready and no timer is armed)."""
        self.flush()
        self.drain()
        n = 0
        while any(not t.done() for _k, t, _i in self.tasks) and n < max_steps:
            if self.loop.next_timer() is None:
                return False
            self.loop.turn()
            self.observe()
            self.drain()
            n += 1
        return all(t.done() for _k, t, _i in self.tasks)

    def settle(self) -> None:
        """deliver what is pending and let the loop go quiet (virtual time does not move)."""
        self.flush()
        self.drain()

    def close(self) -> None:
        self.w.close()


def is_api_error(e) -> bool:
    return isinstance(e, APIConnectionError)


def enabled_pairs(make_scenario, alpha) -> list:
    """(i, j) index pairs of events that are enabled one after the other from a stage (native)."""
    out = []
    for i, ev in enumerate(alpha):
        s = make_scenario()
        try:
            ok = s.apply(ev)
        finally:
            s.close()
        if not ok:
            continue
        for j, ev2 in enumerate(alpha):
            s = make_scenario()
            try:
                if s.apply(ev) and s.apply(ev2):
                    out.append((i, j))
            finally:
                s.close()
    return out
