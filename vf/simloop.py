"""Virtual-time event loop for harnesses: the real asyncio scheduler without I/O (DESIGN.md 1.3).

SimLoop subclasses asyncio.BaseEventLoop and keeps its real `_run_once` (ready FIFO, timer heap,
"callbacks scheduled during an iteration run in the next one") and therefore the real
Future/Task/Lock/timeout/wait machinery.  Replaced: the clock (virtual), the selector (none: a
positive select timeout jumps the virtual clock to the next timer), create_connection (SimTransport),
getaddrinfo (stub).  The loop is transparent to CrossHair: its Handle classes re-raise CrossHair's
path-steering exceptions, finished tasks are scanned for swallowed ones, and it has no finalizer.
"""
from __future__ import annotations

import asyncio
import heapq
from asyncio import base_events, events, futures

try:
    from crosshair.tracers import NoTracing
    from crosshair.util import ControlFlowException  # type: ignore
except Exception:  # pragma: no cover - native replay without crosshair

    class ControlFlowException(BaseException):  # type: ignore
        pass

    class NoTracing:  # type: ignore
        def __enter__(self):
            return self

        def __exit__(self, *a):
            return False


def _all_tasks(loop) -> list:
    # CrossHair's weakref model runs gc.collect() on every dereference (15 ms each): take the
    # snapshot of the task WeakSet untraced
    with NoTracing():
        return list(asyncio.all_tasks(loop))


class _NoSelector:
    def __init__(self, loop: "SimLoop") -> None:
        self.loop = loop

    def select(self, timeout=None):
        loop = self.loop
        if timeout is not None and timeout > 0 and loop._scheduled:
            # jump exactly to the next timer (no float drift)
            when = loop._scheduled[0]._when
            if when > loop._vnow:
                loop._vnow = when
        return []

    def close(self):
        pass


def _run(self):
    try:
        self._context.run(self._callback, *self._args)
    except ControlFlowException:
        raise
    except (SystemExit, KeyboardInterrupt):
        raise
    except BaseException as exc:  # noqa: BLE001 - mirrors asyncio.Handle._run
        self._loop.exc.append({"message": "exception in callback", "exception": exc})
    self = None


class SimHandle(events.Handle):
    __slots__ = ()
    _run = _run


class SimTimerHandle(events.TimerHandle):
    __slots__ = ()
    _run = _run


class FakeSock:
    """what aiohappyeyeballs.start_connection hands back, as far as APIConnection uses it."""

    def __init__(self, peer: str = "10.0.0.1") -> None:
        self.closed = False
        self.close_calls = 0
        self.type = 1
        self.peer = peer
        self.rcvbuf_fail_above = None
        self.owned = False  # the connection actually received this socket (it configured it)

    def setblocking(self, b):
        self.owned = True

    def setsockopt(self, level, opt, value):
        import socket as _s

        if self.rcvbuf_fail_above is not None and opt == _s.SO_RCVBUF and value > self.rcvbuf_fail_above:
            raise OSError("rcvbuf")

    def getpeername(self):
        return (self.peer, 6053)

    def close(self):
        self.closed = True
        self.close_calls += 1

    def fileno(self):
        return 7


class SimTransport(asyncio.Transport):
    """In-memory transport with the observable behaviour of asyncio's selector socket transport:
    close()/abort() deliver connection_lost on a later loop iteration (once); an exception escaping
    data_received is fatal (transport closed, connection_lost(exc)); EOF closes unless the protocol
    asks to keep the transport open."""

    def __init__(self, loop: "SimLoop", protocol, sock=None) -> None:
        super().__init__()
        self.loop = loop
        self.protocol = protocol
        self.sock = sock
        self.writes: list = []  # (virtual time, bytes)
        self.closing = False
        self.lost_delivered = False
        self.fail_writes = None  # exception instance raised by write()
        self.close_time = None
        self.writes_after_close = 0
        self.on_write = None  # optional observer called for every write attempt
        self.made = False  # connection_made delivered: the real transport starts reading only afterwards

    # -- transport API used by the frame helpers
    def write(self, data) -> None:
        if self.on_write is not None:
            self.on_write(self, data)
        if self.fail_writes is not None:
            raise self.fail_writes
        if self.closing:
            # the real transport drops (and logs) writes on a closing socket
            self.writes_after_close += 1
            return
        self.writes.append((self.loop._vnow, bytes(data)))

    def is_closing(self) -> bool:
        return self.closing

    def close(self) -> None:
        self._force_close(None)

    def abort(self) -> None:
        self._force_close(None)

    def get_extra_info(self, name, default=None):
        if name == "socket":
            return self.sock
        return default

    def _force_close(self, exc) -> None:
        if self.closing:
            return
        self.closing = True
        self.close_time = self.loop._vnow
        self.loop.call_soon(self._call_connection_lost, exc)

    def _call_connection_lost(self, exc) -> None:
        try:
            self.lost_delivered = True
            self.protocol.connection_lost(exc)
        finally:
            if self.sock is not None:
                self.sock.close()

    # -- device side (used by harnesses)
    def _made(self) -> None:
        self.made = True
        self.protocol.connection_made(self)

    def feed(self, data) -> None:
        """device bytes arrive (one data_received call), as the selector transport would deliver them."""
        if self.closing or not self.made:
            return
        try:
            self.protocol.data_received(data)
        except ControlFlowException:
            raise
        except (SystemExit, KeyboardInterrupt):
            raise
        except BaseException as exc:  # noqa: BLE001
            self.loop.exc.append({"message": "Fatal error: protocol.data_received() call failed.", "exception": exc})
            self._force_close(exc)

    def feed_eof(self) -> None:
        if self.closing or not self.made:
            return
        try:
            keep_open = self.protocol.eof_received()
        except ControlFlowException:
            raise
        except (SystemExit, KeyboardInterrupt):
            raise
        except BaseException as exc:  # noqa: BLE001
            self.loop.exc.append({"message": "Fatal error: protocol.eof_received() call failed.", "exception": exc})
            self._force_close(exc)
            return
        if not keep_open:
            self.close()

    def feed_reset(self, exc=None) -> None:
        if self.closing or not self.made:
            return
        self._force_close(exc if exc is not None else ConnectionResetError("reset by peer"))

    def written(self) -> bytes:
        return b"".join(d for _, d in self.writes)


class SimLoop(base_events.BaseEventLoop):
    _active = False

    def __init__(self) -> None:
        super().__init__()
        self._vnow = 0
        self._selector = _NoSelector(self)
        self.exc: list = []
        self._clock_resolution = 1e-9
        self.transports: list = []
        self.create_connection_error = None
        self.on_new_transport = None
        self.getaddrinfo_impl = None
        self._active = False

    # -- replaced environment
    def time(self):
        return self._vnow

    def __del__(self, *a):  # no finalizer that formats (see DESIGN 1.3)
        pass

    def _process_events(self, event_list):
        pass

    def _write_to_self(self):
        pass

    def call_exception_handler(self, context):
        self.exc.append(context)

    def default_exception_handler(self, context):
        self.exc.append(context)

    def _call_soon(self, callback, args, context):
        h = SimHandle(callback, args, self, context)
        self._ready.append(h)
        return h

    def call_at(self, when, callback, *args, context=None):
        t = SimTimerHandle(when, callback, args, self, context)
        heapq.heappush(self._scheduled, t)
        t._scheduled = True
        return t

    def call_soon_threadsafe(self, callback, *args, context=None):
        return self.call_soon(callback, *args, context=context)

    async def create_connection(self, protocol_factory, host=None, port=None, *, sock=None, **kw):
        if self.create_connection_error is not None:
            raise self.create_connection_error
        protocol = protocol_factory()
        tr = SimTransport(self, protocol, sock)
        self.transports.append(tr)
        if self.on_new_transport is not None:
            self.on_new_transport(tr)
        waiter = self.create_future()
        self.call_soon(tr._made)
        self.call_soon(futures._set_result_unless_cancelled, waiter, None)
        try:
            await waiter
        except BaseException:
            tr.close()
            raise
        return tr, protocol

    async def getaddrinfo(self, host, port, *, family=0, type=0, proto=0, flags=0):
        if self.getaddrinfo_impl is None:
            raise OSError("no dns in the simulation")
        return await self.getaddrinfo_impl(host, port)

    # -- driving
    def activate(self) -> "SimLoop":
        asyncio.set_event_loop(self)
        events._set_running_loop(self)
        self._active = True
        return self

    def is_running(self):
        return self._active

    def _check_tasks(self) -> None:
        for t in _all_tasks(self):
            if t.done() and not t.cancelled():
                e = getattr(t, "_exception", None)
                if isinstance(e, ControlFlowException):
                    raise e

    def turn(self) -> None:
        """one iteration of the real scheduler."""
        self._run_once()
        self._check_tasks()

    def run_ready(self, limit: int = 400) -> int:
        """run iterations while callbacks are ready (virtual time does not move)."""
        n = 0
        while self._ready and n < limit:
            self.turn()
            n += 1
        if self._ready:
            raise RuntimeError("SimLoop.run_ready: livelock (ready queue never drains)")
        return n

    def live_timers(self) -> list:
        return sorted((h for h in self._scheduled if not h._cancelled), key=lambda h: h._when)

    def next_timer(self):
        t = self.live_timers()
        return t[0] if t else None

    def advance(self) -> bool:
        """drain ready callbacks, then jump to the next live timer and run everything it causes."""
        self.run_ready()
        if self.next_timer() is None:
            return False
        self.turn()
        self.run_ready()
        return True

    def advance_to(self, when) -> None:
        """run every timer due up to `when` (inclusive) and set the clock to `when`."""
        self.run_ready()
        while True:
            t = self.next_timer()
            if t is None or t._when > when:
                break
            self.turn()
            self.run_ready()
        if when > self._vnow:
            self._vnow = when

    def run_until_done(self, fut, max_steps: int = 200) -> bool:
        """advance virtual time until `fut` is done; False when nothing can ever happen (deadlock)."""
        n = 0
        self.run_ready()
        while not fut.done() and n < max_steps:
            if not self.advance():
                return False
            n += 1
        return fut.done()

    def shutdown(self) -> None:
        """cancel what is left, drain, close; leaves no task or finalizer behind for the next path."""
        for _ in range(5):
            pending = [t for t in _all_tasks(self) if not t.done()]
            if not pending:
                break
            for t in pending:
                t.cancel()
            try:
                self.run_ready()
            except RuntimeError:
                break
        for t in _all_tasks(self):
            if t.done() and not t.cancelled():
                t.exception()  # mark retrieved: no "never retrieved" logging from __del__
        self._active = False
        events._set_running_loop(None)
        asyncio.set_event_loop(None)
        self._ready.clear()
        self._scheduled.clear()
        self._closed = True
