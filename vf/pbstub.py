"""Pure-Python doubles of protobuf message classes (DESIGN.md 2).

A double has exactly the field names of the compiled descriptor, returns the descriptor's default
for an unset field, raises AttributeError for an unknown field, and records which fields were
assigned (`_set`).  Serialize/Merge is an injective token codec: SerializeToString registers the
object and returns a concrete token; MergeFromString(token) copies the registered object's fields
(an unknown token raises, like an undecodable payload).  Field *values* are never touched, so they
may be symbolic.  `install()` rebinds module-level names / table entries for one harness call and
restores them afterwards; the real dispatch code, handler tables and builders run unchanged.
"""
from __future__ import annotations

import sys
from contextlib import contextmanager

from google.protobuf.descriptor import FieldDescriptor as FD

_STUBS: dict = {}
_REGISTRY: list = []
_TOKEN_PREFIX = b"\xf7TOK"


class DecodeError(Exception):
    pass


class RepeatedStub(list):
    """repeated field: list with protobuf's extend/append/add surface."""

    __slots__ = ("_elem",)

    def __init__(self, elem=None, items=()):
        super().__init__(items)
        self._elem = elem

    def add(self, **kw):
        obj = self._elem(**kw)
        self.append(obj)
        return obj


def reset_registry() -> None:
    del _REGISTRY[:]


def make_stub(pbcls):
    if pbcls in _STUBS:
        return _STUBS[pbcls]
    desc = pbcls.DESCRIPTOR
    # plain-Python field table: name -> (repeated, is_message, default, message class or None)
    fields = {}
    for f in desc.fields:
        is_msg = f.type == FD.TYPE_MESSAGE
        fields[f.name] = (bool(f.is_repeated), is_msg, None if (is_msg or f.is_repeated) else f.default_value,
                          f.message_type._concrete_class if is_msg else None)

    class Stub:
        __slots__ = ("_set",)
        _fields = fields
        _pb = pbcls
        DESCRIPTOR = desc

        def __init__(self, **kw):
            object.__setattr__(self, "_set", {})
            for k, v in kw.items():
                f = fields.get(k)
                if f is None:
                    raise ValueError(f'Protocol message {desc.name} has no "{k}" field.')
                if v is None:
                    continue  # protobuf ignores None keyword values
                if f[0]:
                    getattr(self, k).extend(v)
                else:
                    self._set[k] = v

        def __setattr__(self, k, v):
            f = fields.get(k)
            if f is None:
                raise AttributeError(f"Assignment not allowed (no field {k!r} in protocol message object).")
            if f[0] or f[1]:
                raise AttributeError(f"Assignment not allowed to repeated/composite field {k!r}")
            self._set[k] = v

        def __getattr__(self, k):
            f = fields.get(k)
            if f is None:
                raise AttributeError(k)
            s = self._set
            if k in s:
                return s[k]
            if f[0]:
                elem = make_stub(f[3]) if f[1] else None
                s[k] = r = RepeatedStub(elem)
                return r
            if f[1]:
                s[k] = m = make_stub(f[3])()
                return m
            return f[2]

        def assigned(self) -> dict:
            """fields that carry a non-default-by-construction entry (repeated: only when non-empty)."""
            out = {}
            for k, v in self._set.items():
                if isinstance(v, RepeatedStub) and len(v) == 0:
                    continue
                out[k] = v
            return out

        def SerializeToString(self):
            _REGISTRY.append(self)
            return _TOKEN_PREFIX + str(len(_REGISTRY) - 1).encode()

        def MergeFromString(self, data):
            data = bytes(data)
            if not data.startswith(_TOKEN_PREFIX):
                raise DecodeError("Error parsing message")
            idx = int(data[len(_TOKEN_PREFIX):].decode())
            src = _REGISTRY[idx]
            if type(src) is not type(self):
                raise DecodeError("Error parsing message (token of another type)")
            for k, v in src._set.items():
                self._set[k] = v
            return len(data)

        ParseFromString = MergeFromString

        def __repr__(self):
            return f"<stub {desc.name}>"

    Stub.__name__ = pbcls.__name__
    Stub.__qualname__ = pbcls.__name__
    _STUBS[pbcls] = Stub
    return Stub


_TABLE_MODULES = (
    "aioesphomeapi.connection",
    "aioesphomeapi.client",
    "aioesphomeapi.client_callbacks",
    "aioesphomeapi.model_conversions",
    "aioesphomeapi.model",
    "aioesphomeapi.core",
    "aioesphomeapi.reconnect_logic",
    "aioesphomeapi.log_reader",
)


@contextmanager
def install(*pbclasses):
    """Rebind every module-level reference to the given protobuf classes (names, tuple members, dict
    keys) in the aioesphomeapi modules to their doubles for the duration of the block."""
    import importlib

    from vf.track import NoTracing

    repl = {c: make_stub(c) for c in pbclasses}
    undo = []
    reset_registry()
    with NoTracing():
        _rebind(repl, undo, importlib)
    try:
        yield repl
    finally:
        with NoTracing():
            for mod, name, val in reversed(undo):
                setattr(mod, name, val)
        reset_registry()


def _rebind(repl, undo, importlib):
    for mn in _TABLE_MODULES:
        try:
            mod = sys.modules.get(mn) or importlib.import_module(mn)
        except Exception:  # noqa: BLE001
            continue
        for name, val in list(vars(mod).items()):
            if isinstance(val, type) and val in repl:
                undo.append((mod, name, val))
                setattr(mod, name, repl[val])
            elif isinstance(val, tuple) and val and any(isinstance(x, type) and x in repl for x in val):
                undo.append((mod, name, val))
                setattr(mod, name, tuple(repl.get(x, x) if isinstance(x, type) else x for x in val))
            elif isinstance(val, dict) and val:
                if any(isinstance(k, type) and k in repl for k in val):
                    undo.append((mod, name, val))
                    setattr(mod, name, {(repl.get(k, k) if isinstance(k, type) else k): v for k, v in val.items()})
                elif any(isinstance(v, type) and v in repl for v in val.values()):
                    undo.append((mod, name, val))
                    setattr(mod, name, {k: (repl.get(v, v) if isinstance(v, type) else v) for k, v in val.items()})
