"""Run one shard: CrossHair analysis of one harness function (plus its reachability twin).

usage: python -m vf.worker <module> <function> <cond_timeout> <path_timeout>
(env carries the shard selectors). Prints one JSON object on the last line of stdout.
"""
from __future__ import annotations

import importlib
import json
import os
import re
import sys
import time
from collections import Counter


def _strip_patch(call: str) -> str:
    """CrossHair appends ' with crosshair.patch_to_return({...})' when a path consumed a patched
    nondeterministic source (e.g. time.monotonic of a stock loop); harnesses never depend on those,
    and a counterexample that did would fail to reproduce natively (harness error, never a VIOLATION)."""
    i = call.find(" with crosshair.patch_to_return(")
    return call[:i] if i >= 0 else call


def main() -> None:
    mod_name, fn_name, cond_to, path_to = sys.argv[1:5]
    t0 = time.time()
    import logging

    logging.disable(logging.CRITICAL)
    # the stock registrations must be made first: the plugin's handlers have to come last in
    # CrossHair's binary-operator search order to take priority
    import crosshair.core_and_libs  # noqa: F401

    from vf import plugin, track

    plugin.install()
    mod = importlib.import_module(mod_name)
    if getattr(mod, "NEEDS_NOISE_PATCHES", False):
        plugin.install_noise_patches()
    fn = getattr(mod, fn_name)

    from crosshair.core_and_libs import analyze_function, run_checkables
    from crosshair.options import AnalysisOptionSet
    from crosshair.statespace import MessageType

    def run(timeout: float):
        stats: Counter = Counter()
        opts = AnalysisOptionSet(
            per_condition_timeout=timeout,
            per_path_timeout=float(path_to),
            report_all=True,
            stats=stats,
        )
        msgs = run_checkables(analyze_function(fn, opts))
        return msgs, stats

    for k in track.COUNTS:
        track.COUNTS[k] = 0
    msgs, stats = run(float(cond_to))
    counts = dict(track.COUNTS)
    solver = dict(plugin.SOLVER)
    out = {
        "module": mod_name,
        "function": fn_name,
        "paths": int(stats.get("num_paths", 0)),
        "entered": counts["entered"],
        "reached": counts["reached"],
        "known_hits": counts["known_hits"],
        "pruned": counts.get("pruned", 0),
        "solver_calls": solver["calls"],
        "solver_seconds": round(solver["seconds"], 3),
        "messages": [],
    }
    status = "inconclusive"
    detail = ""
    call = None
    for m in msgs:
        out["messages"].append({"state": m.state.name, "message": m.message[:2000], "line": m.line})
    states = [m.state for m in msgs]
    if not msgs:
        status, detail = "inconclusive", "no analysis message (no contract found?)"
    elif any(s in (MessageType.POST_FAIL, MessageType.EXEC_ERR, MessageType.POST_ERR) for s in states):
        status = "counterexample"
        for m in msgs:
            if m.state in (MessageType.POST_FAIL, MessageType.EXEC_ERR, MessageType.POST_ERR):
                detail = m.message
                mm = re.search(r"when calling (.*?)(?: \(which returns|$)", m.message, re.S)
                if mm:
                    call = _strip_patch(mm.group(1).strip())
                break
    elif all(s == MessageType.CONFIRMED for s in states):
        status = "confirmed"
    elif any(s == MessageType.PRE_UNSAT for s in states):
        status, detail = "inconclusive", "unable to meet precondition"
    elif any(s == MessageType.CANNOT_CONFIRM for s in states):
        status, detail = "inconclusive", "not confirmed (time or unknown paths)"
    else:
        status, detail = "inconclusive", ",".join(s.name for s in states)
    out["status"] = status
    out["detail"] = detail[:3000]
    out["call"] = call
    out["main_seconds"] = round(time.time() - t0, 2)

    # reachability twin: the same harness with the oracle point turned into a failure must be refuted
    twin = "skipped"
    if status == "confirmed":
        if counts["reached"] == 0 and counts.get("pruned", 0) > 0 and counts["pruned"] >= counts["entered"]:
            twin = "empty"  # every path of this slice ended at an event that is not enabled: nothing to judge
        elif counts["reached"] == 0:
            twin = "unreached"
        else:
            track.TWIN = True
            try:
                tmsgs, _ = run(min(float(cond_to), 60.0))
            finally:
                track.TWIN = False
            if any(m.state in (MessageType.POST_FAIL,) for m in tmsgs):
                twin = "refuted"  # good: the oracle point is reachable
                for m in tmsgs:
                    mm = re.search(r"when calling (.*?)(?: \(which returns|$)", m.message, re.S)
                    if mm:
                        out["twin_call"] = _strip_patch(mm.group(1).strip())
            else:
                twin = "not-refuted:" + ",".join(m.state.name for m in tmsgs)
    out["twin"] = twin
    out["seconds"] = round(time.time() - t0, 2)
    print("\n@@RESULT@@" + json.dumps(out))


if __name__ == "__main__":
    main()
