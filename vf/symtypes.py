"""Argument types for harness functions with a fixed symbolic representation.

`IeeeFloat`: a harness parameter annotated with it is created by CrossHair as ONE symbolic value of
the z3 floating-point sort Float64 (`PreciseIeeeSymbolicFloat`): every double -- zeros of both signs,
subnormals, infinities, NaN -- is a value of that single variable, arithmetic on it (x * 1000,
round, int) is decided with IEEE-754 semantics.  (Stock `float` parameters fork four ways per
argument -- finite real / nan / -inf / +inf -- and model the finite ones as reals.)
Natively (replay) it is just `float`.  Do not mix with plain `float` parameters in one harness.
"""
from __future__ import annotations

from vf.track import NoTracing


class IeeeFloat(float):
    pass


def same(a, b) -> bool:
    """identity-or-equality (NaN-safe).  Unlike vf.harness.common.same the identity test runs
    untraced: CrossHair intercepts `is` between symbolic bools and realises both operands (a fork
    per bool field), which is pointless when the two operands are one and the same object."""
    with NoTracing():
        if a is b:
            return True
    return a == b or (a != a and b != b)


class RealFloat(float):
    """finite float modelled as a z3 Real (CrossHair's RealBasedSymbolicFloat), created without the
    stock four-way finite/nan/-inf/+inf fork: arithmetic is exact real arithmetic (no IEEE rounding).

    CrossHair 0.0.110 caps the verdict of every path that touches a real-modelled float at "unknown"
    (real arithmetic ignores IEEE rounding), so nothing involving them is ever "confirmed".  A harness
    that takes a `RealFloat` parameter states its claim AT REAL-ARITHMETIC LEVEL on purpose (DESIGN 1.5
    "Floats"), therefore the cap is lifted for the paths of that harness (only for them: the switch is
    an attribute of the per-path state space).  IEEE rounding of the product is outside such a claim."""


try:
    from crosshair.core import register_type
    from crosshair.libimpl.builtinslib import ModelingDirector, PreciseIeeeSymbolicFloat

    def _make_ieee(creator):
        # CrossHair promotes literals / ints that meet a symbolic float to the representation chosen
        # per path by its ModelingDirector; pin that choice so that it agrees with this value.
        creator.space.extra(ModelingDirector).global_representations[float] = PreciseIeeeSymbolicFloat
        return PreciseIeeeSymbolicFloat(creator.varname + creator.space.uniq(), float)

    register_type(IeeeFloat, _make_ieee)

    from crosshair.libimpl.builtinslib import RealBasedSymbolicFloat

    def _no_cap():
        return None

    def _make_real(creator):
        creator.space.extra(ModelingDirector).global_representations[float] = RealBasedSymbolicFloat
        creator.space.cap_result_at_unknown = _no_cap  # see the class docstring
        return RealBasedSymbolicFloat(creator.varname + creator.space.uniq(), float)

    register_type(RealFloat, _make_real)
except Exception:  # noqa: BLE001  (native replay without crosshair, or registered twice)
    pass


def sym_ceil(x):
    """math.ceil for a FINITE value.  For a symbolic IEEE float this is CrossHair's own encoding of
    __ceil__ (round toward +inf to an integral value); its built-in __ceil__ cannot be used because its
    finiteness pre-check runs untraced and thereby realises the operand (enumeration of doubles)."""
    import math

    with NoTracing():
        try:
            import z3
            from crosshair.libimpl.builtinslib import PreciseIeeeSymbolicFloat as P
        except Exception:  # noqa: BLE001
            P = None
        if P is not None and isinstance(x, P):
            return P(z3.fpRoundToIntegral(z3.RTP(), x.var))
    return math.ceil(x)
