"""Shared scenario scaffolding: a real APIClient / APIConnection on the SimLoop (DESIGN.md 3/C05).

`World` owns the loop, the stubbed environment (resolver, happy-eyeballs connect) and the
observations (state log, stop callbacks, transports, sockets).  The connection class is the real
APIConnection sub-classed only to log `_set_connection_state`.
"""
from __future__ import annotations

import asyncio
import socket

import aioesphomeapi.client as CL
import aioesphomeapi.connection as CN
from aioesphomeapi import api_pb2 as pb
from aioesphomeapi.connection import APIConnection, ConnectionParams, ConnectionState
from aioesphomeapi.host_resolver import AddrInfo, IPv4Sockaddr

from vf import refcodec as R
from vf.simloop import FakeSock, SimLoop

INIT = ConnectionState.INITIALIZED
OPENED = ConnectionState.SOCKET_OPENED
HS = ConnectionState.HANDSHAKE_COMPLETE
CONNECTED = ConnectionState.CONNECTED
CLOSED = ConnectionState.CLOSED
ORDER = {INIT: 0, OPENED: 1, HS: 2, CONNECTED: 3, CLOSED: 4}


def frame(msg) -> bytes:
    """plaintext frame of a real protobuf message (concrete)."""
    t = CN.PROTO_TO_MESSAGE_TYPE[type(msg)]
    return R.enc_plain_frame(t, msg.SerializeToString())


def frame_raw(t: int, payload: bytes) -> bytes:
    return R.enc_plain_frame(t, payload)


HELLO_OK = frame(pb.HelloResponse(api_version_major=1, api_version_minor=10, name="dev", server_info="s"))
CONNECT_OK = frame(pb.ConnectResponse())
CONNECT_BAD = frame(pb.ConnectResponse(invalid_password=True))
DISC_REQ = frame(pb.DisconnectRequest())
DISC_RESP = frame(pb.DisconnectResponse())
PING_REQ = frame(pb.PingRequest())
PING_RESP = frame(pb.PingResponse())
GARBAGE = b"\x05\x00\x00"  # invalid preamble
NOISE_MARK = b"\x01\x00\x00"  # device speaks noise
BAD_PAYLOAD = frame_raw(27, b"\x12\x02\xff\xfe")  # TextSensorStateResponse with invalid utf-8
SENSOR = frame(pb.SensorStateResponse(key=1, state=2.0))
DEVINFO = frame(pb.DeviceInfoResponse(name="dev"))


class _FakeTime:
    def __init__(self, now):
        self._now = now

    def time(self):
        return self._now


class World:
    def __init__(self, *, noise_psk=None, expected_name=None, password=None, keepalive=20.0, addresses=None, real_resolver=False):
        self.loop = SimLoop().activate()
        self.real_resolver = real_resolver
        self.zw = None
        self.state_log: list = []  # (prev, new)
        self.stops: list = []  # on_stop arguments
        self.bad_transition: list = []
        self.socks: list = []
        self.resolve_futs: list = []
        self.connect_futs: list = []
        self.resolve_mode = "ok"  # ok | pending | error
        self.connect_mode = "pending"  # ok | pending | error
        self.params = ConnectionParams(
            addresses=addresses or ["10.0.0.1"], port=6053, password=password, client_info="c",
            keepalive=keepalive, zeroconf_manager=None, noise_psk=noise_psk, expected_name=expected_name)
        world = self

        class LoggedConnection(APIConnection):
            __slots__ = ()

            def _set_connection_state(self, state):
                prev = self.connection_state
                super()._set_connection_state(state)
                world.state_log.append((prev, state))
                if state is not prev:
                    if prev is CLOSED or (state is not CLOSED and ORDER[state] != ORDER[prev] + 1):
                        world.bad_transition.append((prev, state))

        self.ConnCls = LoggedConnection
        self._orig = (CN.hr.async_resolve_host, CN.aiohappyeyeballs.start_connection, CL.APIConnection)
        self._orig_time = CN.time
        CN.time = _FakeTime(1700000000)  # GetTimeRequest reads the wall clock: pinned
        if real_resolver:
            # the real async_resolve_host runs: the device is addressed by an mDNS name, the mDNS request
            # is answered when the scenario says so, the OS resolver fallback knows the name too
            from aioesphomeapi.zeroconf import ZeroconfManager
            from vf.stubs_zc import ZcWorld

            self.zw = ZcWorld().install()
            self.zw.mdns_answer = self._mdns_answer
            self.params.addresses = ["dev.local"]
            self.params.zeroconf_manager = ZeroconfManager()
            self.loop.getaddrinfo_impl = self._getaddrinfo
        else:
            CN.hr.async_resolve_host = self._resolve
        CN.aiohappyeyeballs.start_connection = self._start_connection
        CL.APIConnection = LoggedConnection
        self.conn = None
        self.closed = False
        self.write_states: list = []  # connection state at every transport.write attempt
        self.loop.on_new_transport = self._hook_transport

    def _hook_transport(self, tr) -> None:
        def on_write(_tr, _data):
            c = self.conn
            self.write_states.append(c.connection_state if c is not None else None)

        tr.on_write = on_write

    # ---- stubbed environment
    def _addrinfos(self) -> list:
        # one IPv4 address per configured address: each is its own happy-eyeballs group
        return [AddrInfo(family=socket.AF_INET, type=socket.SOCK_STREAM, proto=6, sockaddr=IPv4Sockaddr(a, 6053))
                for a in self.params.addresses]

    async def _resolve(self, hosts, port, zc=None):
        if self.resolve_mode == "ok":
            return self._addrinfos()
        if self.resolve_mode == "error":
            raise CN.ResolveAPIError("stub resolve error")
        f = self.loop.create_future()
        self.resolve_futs.append(f)
        return await f

    async def _mdns_answer(self, info, zc, timeout):
        from ipaddress import IPv4Address

        if self.resolve_mode == "ok":
            return ([IPv4Address("10.0.0.1")], [])
        if self.resolve_mode == "error":
            raise OSError("mDNS request failed")
        f = self.loop.create_future()
        self.resolve_futs.append(f)
        await f
        return ([IPv4Address("10.0.0.1")], [])

    async def _getaddrinfo(self, host, port):
        return [(socket.AF_INET, socket.SOCK_STREAM, 6, "", ("10.0.0.1", port))]

    async def _start_connection(self, addr_infos, **kw):
        if self.connect_mode == "ok":
            s = FakeSock()
            self.socks.append(s)
            return s
        if self.connect_mode == "error":
            raise OSError("stub connect error")
        f = self.loop.create_future()
        self.connect_futs.append(f)
        return await f

    def complete_connect(self) -> bool:
        for f in self.connect_futs:
            if not f.done():
                s = FakeSock()
                self.socks.append(s)
                f.set_result(s)
                return True
        return False

    def fail_connect(self, exc=None) -> bool:
        for f in self.connect_futs:
            if not f.done():
                f.set_exception(exc or OSError("connect failed"))
                return True
        return False

    def complete_resolve(self) -> bool:
        for f in self.resolve_futs:
            if not f.done():
                f.set_result(self._addrinfos())
                return True
        return False

    # ---- objects
    def new_connection(self, on_stop=None):
        def _stop(expected):
            self.stops.append(expected)
            if on_stop is not None:
                on_stop(expected)

        self.conn = self.ConnCls(self.params, _stop, False, "x")
        return self.conn

    def new_client(self, **kw):
        cli = CL.APIClient("10.0.0.1", 6053, kw.pop("password", self.params.password),
                           noise_psk=self.params.noise_psk, expected_name=self.params.expected_name,
                           keepalive=self.params.keepalive, **kw)
        return cli

    @property
    def transport(self):
        return self.loop.transports[-1] if self.loop.transports else None

    def feed(self, data) -> bool:
        tr = self.transport
        if tr is None or tr.closing or not tr.made:
            return False
        tr.feed(data)
        return True

    def task(self, coro):
        return self.loop.create_task(coro)

    def close(self) -> None:
        if self.closed:
            return
        self.closed = True
        try:
            self.loop.shutdown()
        finally:
            if self.zw is not None:
                self.zw.uninstall()
            CN.hr.async_resolve_host, CN.aiohappyeyeballs.start_connection, CL.APIConnection = self._orig
            CN.time = self._orig_time


def outcome(task):
    """('ok', result) | ('exc', exception) | ('cancelled', None) | ('pending', None)"""
    if not task.done():
        return ("pending", None)
    if task.cancelled():
        return ("cancelled", None)
    e = task.exception()
    if e is not None:
        return ("exc", e)
    return ("ok", task.result())
