"""Doubles for the zeroconf environment (used by the C18 and C20 harnesses).

`ZcWorld.install()` rebinds the module-level names the library uses to reach zeroconf
(`aioesphomeapi.zeroconf.AsyncZeroconf` / `.Zeroconf`, `aioesphomeapi.host_resolver.AsyncServiceInfo`)
to the doubles below for the duration of one harness call; `uninstall()` restores them.  Nothing
inside /repo is edited and all real library code (ZeroconfManager, the resolver, ReconnectLogic) runs
unchanged against these doubles.

Semantics of the doubles (the documented contract of python-zeroconf, nothing more):
* FakeZeroconf: a listener registry (`async_add_listener` / `async_remove_listener`); records are
  delivered only to registered listeners (`deliver`).
* FakeAsyncZeroconf(zc=None): wraps the given FakeZeroconf or creates its own; `async_close()` closes
  the underlying instance; every construction and every close is recorded in the world.
* FakeServiceInfo(type, name, server=...): `async_request(zc, timeout_ms)` asks the world's mDNS
  answer function; `ip_addresses_by_version(version)` returns what the answer contained.
"""
from __future__ import annotations

import asyncio

import aioesphomeapi.host_resolver as HR
import aioesphomeapi.zeroconf as ZM
from zeroconf import IPVersion

_WORLD = None


class FakeZeroconf:
    def __init__(self, tag: str = "lib") -> None:
        self.tag = tag
        self.listeners: list = []
        self.add_calls = 0
        self.remove_calls = 0
        self.close_calls = 0  # closed through an AsyncZeroconf wrapper

    def async_add_listener(self, listener, question) -> None:
        self.add_calls += 1
        self.listeners.append(listener)

    def async_remove_listener(self, listener) -> None:
        self.remove_calls += 1
        if listener in self.listeners:
            self.listeners.remove(listener)

    def deliver(self, records) -> int:
        """hand a batch of record updates to every registered listener (as Zeroconf does)."""
        n = 0
        for l in list(self.listeners):
            l.async_update_records(self, 0.0, records)
            n += 1
        return n


class FakeAsyncZeroconf:
    def __init__(self, zc=None, _tag: str = "lib", **kw) -> None:
        w = _WORLD
        self.tag = _tag
        self.wraps_given = zc is not None
        self.close_calls = 0
        if w is not None:
            if zc is None and _tag == "lib" and w.create_hook is not None:
                w.create_hook()  # may raise: "cannot start mDNS sockets"
            w.constructed.append(self)
        self.zeroconf = zc if zc is not None else FakeZeroconf(_tag)

    async def async_close(self) -> None:
        self.close_calls += 1
        self.zeroconf.close_calls += 1


class FakeServiceInfo:
    def __init__(self, type_, name, *a, server=None, **kw) -> None:
        self.type = type_
        self.name = name
        self.server = server
        self.v4: list = []
        self.v6: list = []
        w = _WORLD
        if w is not None:
            w.infos.append(self)

    async def async_request(self, zc, timeout, *a, **kw) -> bool:
        w = _WORLD
        self.zc = zc
        self.timeout = timeout
        ans = await w.mdns_answer(self, zc, timeout)
        if ans is None:
            return False
        self.v4, self.v6 = ans
        return bool(self.v4 or self.v6)

    def ip_addresses_by_version(self, version):
        if version == IPVersion.V4Only:
            return list(self.v4)
        if version == IPVersion.V6Only:
            return list(self.v6)
        return list(self.v4) + list(self.v6)


class ZcWorld:
    """per-path registry of doubles + the patching of the library's module-level names."""

    def __init__(self) -> None:
        self.constructed: list = []  # every FakeAsyncZeroconf built while installed (library or harness)
        self.infos: list = []
        self.create_hook = None
        self.mdns_answer = self._no_answer
        self._orig = None

    async def _no_answer(self, info, zc, timeout):
        return None

    def install(self) -> "ZcWorld":
        global _WORLD
        self._orig = (ZM.AsyncZeroconf, ZM.Zeroconf, HR.AsyncServiceInfo)
        ZM.AsyncZeroconf = FakeAsyncZeroconf
        ZM.Zeroconf = FakeZeroconf
        HR.AsyncServiceInfo = FakeServiceInfo
        _WORLD = self
        return self

    def uninstall(self) -> None:
        global _WORLD
        if self._orig is not None:
            ZM.AsyncZeroconf, ZM.Zeroconf, HR.AsyncServiceInfo = self._orig
            self._orig = None
        _WORLD = None

    def supplied_async(self, zc=None) -> FakeAsyncZeroconf:
        """an AsyncZeroconf owned by the application."""
        return FakeAsyncZeroconf(zc=zc, _tag="app")

    def library_created(self) -> list:
        """instances the library constructed without being given a zeroconf to wrap (it owns them)."""
        return [a for a in self.constructed if a.tag == "lib" and not a.wraps_given]
