"""Shared pieces of the noise harnesses (C02 noise part, C03, C04).

* concrete keys, pinned ephemeral keys (no hidden randomness: paths and replays are deterministic)
* builders for the real `APINoiseFrameHelper` wired to a recording connection / transport
* `feed`: one `data_received` call the way asyncio's selector transport performs it (an exception
  that escapes closes the transport and is delivered to `connection_lost`)
* the ideal-AEAD stub of DESIGN.md section 2
"""
from __future__ import annotations

import base64

from cryptography.exceptions import InvalidTag

from aioesphomeapi._frame_helper import noise as N
from aioesphomeapi._frame_helper.noise import APINoiseFrameHelper

from vf import noise_ref as NR
from vf.harness.common import RecConn, RecTransport, base_loop
from vf.track import NoTracing

PSKS = [bytes(range(32)), bytes((i * 11 + 5) % 256 for i in range(32))]
PSK_B64 = [base64.b64encode(k).decode() for k in PSKS]
CLIENT_EPHEMERAL = bytes((5 * i + 1) % 256 for i in range(32))


def _pin_client_ephemeral(h) -> None:
    # the library generates `e` only when none is set; pin it so that the handshake bytes are the
    # same on every path and in the native replay
    from noise.backends.default.keypairs import KeyPair25519

    h._proto.noise_protocol.handshake_state.e = KeyPair25519.from_private_bytes(CLIENT_EPHEMERAL)


def new_helper(psk_i: int = 0, expected_name=None, cls=APINoiseFrameHelper, connect: bool = True):
    """real helper + recording connection/transport; `connection_made` already performed."""
    base_loop()
    cn = RecConn()
    h = cls(connection=cn, noise_psk=PSK_B64[psk_i], expected_name=expected_name, client_info="c", log_name="x")
    cn.helper = h
    tr = RecTransport()
    with NoTracing():
        _pin_client_ephemeral(h)
    if connect:
        h.connection_made(tr)
    return h, cn, tr


def feed(h, tr, chunk):
    """one data_received call as asyncio performs it: an exception escaping the protocol is a fatal
    transport error (transport force-closed, protocol.connection_lost(exc))."""
    try:
        h.data_received(chunk)
    except Exception as e:  # noqa: BLE001  (never BaseException: CrossHair steers with those)
        tr.close()
        h.connection_lost(e)
        return e
    return None


def ready_helper(psk_i: int = 0, name: bytes | None = b"dev", expected_name=None):
    """concrete set-up (untraced): a helper that completed the real handshake with the reference
    responder.  Returns (helper, connection, transport, device)."""
    with NoTracing():
        h, cn, tr = new_helper(psk_i, expected_name)
        dev = NR.Device(PSKS[psk_i], name)
        hello, hs = dev.accept(bytes(tr.writes[0]))
        h.data_received(hello + hs)
        assert h._state == N.NOISE_STATE_READY and not cn.errors
    return h, cn, tr, dev


def ref_nonce(counter):
    """the 96-bit ChaChaPoly nonce of Noise (spec section 12.3 as used by ESPHome): 32 zero bits
    followed by the little-endian 64-bit counter.  Stays symbolic for a symbolic counter."""
    return bytes(4) + counter.to_bytes(8, "little")


class IdealAEAD:
    """Ideal AEAD (DESIGN.md section 2).

    decrypt(nonce, c, ad) returns the plaintext iff `c` is byte-equal to what the peer model produced
    under that nonce (`sent`: list of (counter, ciphertext, plaintext)), else raises InvalidTag.
    encrypt(nonce, p, ad) records (nonce bytes, p) and returns an opaque token of len(p) + 16 bytes.
    Nonces are compared as the 12 bytes handed to the cipher against `ref_nonce(counter)`, so the
    layout the code under test produces is part of what is checked.
    """

    def __init__(self, sent=None):
        self.sent = [(ref_nonce(n), ct, pt) for n, ct, pt in (sent or [])]
        self.enc_log = []
        self.tokens = []
        self.dec_calls = 0

    def decrypt(self, nonce, data, ad):
        self.dec_calls += 1
        if ad is not None and len(ad) != 0:
            raise InvalidTag()
        for nb, ct, pt in self.sent:
            if len(data) == len(ct) and data == ct and nonce == nb:
                return pt
        raise InvalidTag()

    def encrypt(self, nonce, data, ad):
        if ad is not None and len(ad) != 0:
            raise AssertionError("transport encryption uses empty associated data")
        i = len(self.enc_log)
        self.enc_log.append((nonce, data))
        tok = bytes([0xC0 + i]) * (len(data) + 16)
        self.tokens.append(tok)
        return tok


class ideal_decrypt_at_handshake:
    """while active, the DecryptCipher the helper creates when the handshake completes uses the
    ideal AEAD (module-level name rebinding only; the real DecryptCipher class still does the nonce
    bookkeeping)."""

    def __init__(self, ideal: IdealAEAD):
        self.ideal = ideal
        self.orig = None

    def __enter__(self):
        orig = self.orig = N.DecryptCipher
        ideal = self.ideal

        def factory(cipher_state):
            dc = orig(cipher_state)
            dc._decrypt = ideal.decrypt
            return dc

        N.DecryptCipher = factory
        return self

    def __exit__(self, *a):
        N.DecryptCipher = self.orig
        return False
