"""Regenerate MANIFEST.json from the table below (run by hand after adding a check)."""
import json
import os

ROOT = os.path.dirname(os.path.dirname(os.path.abspath(__file__)))

BUILT = {
    # id: (design_ref, level text, level note)
    "C01": ("DESIGN.md 3/C01", "inductive one-chunk step of the plaintext reassembly from every valid buffer state (all cut pairs, symbolic types and payload bytes, three chunk types) plus end-to-end 2-3 chunk runs and _read_varuint on arbitrary bytes",
            "CrossHair bytes/bytearray/memoryview models; reference encoder; representation invariant of the buffer stated in the harness and re-established end-to-end by h01b"),
    "C02": ("DESIGN.md 3/C02", "every batch written by the plaintext helper decodes under the strict reference decoder to the packets given (symbolic types/payload bytes, listed length classes, two consecutive writes with the memoised encoder modelled); varuint encoder exact for all v < 2^64; send_messages hands the declared id and serialisation for every class; noise: framing and strictly consecutive nonces inductively on a symbolic nonce with the ideal AEAD, real cipher end-to-end against an independent responder",
            "CrossHair int/bytes models + plugin bit-op encodings; reference decoder is the documented format; noise: ideal-AEAD recorder, two concrete keys; lru_cache modelled explicitly"),
    "C03": ("DESIGN.md 3/C03", "inductive framing step of the noise helper from every (state, buffered prefix) with symbolic frame bytes and all cut pairs; real handshake against an independent Noise_NNpsk0 responder with every single/double cut of hello|handshake|data and symbolic data messages (ideal AEAD) plus real-cipher runs; readiness/gating through the real APIConnection",
            "noise/cryptography executed concretely (untraced) with two concrete keys; ideal AEAD for symbolic ciphertexts; independent responder vf/noise_ref.py"),
    "C04": ("DESIGN.md 3/C04", "data-phase deviations (replace by arbitrary bytes, drop, duplicate, swap, truncate) from a symbolic nonce with the ideal AEAD, handshake-phase deviations with symbolic content (selector, names, error text, marker byte, truncation lengths, wrong key, wrong framing), real-cipher bit flips, key strings over a 13-character alphabet",
            "ideal AEAD (authenticity + nonce binding assumed); base64 decoding is C code: key strings are solver-enumerated over a tiny alphabet; two concrete keys"),
    "C05": ("DESIGN.md 3/C05", "every sequence of 3 events (quick: 18-event alphabet; thorough: 23 events, plus 4 events over the reduced alphabet from the main stages) after each of 8 lifecycle stages (incl. the real resolver with an mDNS request in flight) and the noise-handshake stage, on the real APIConnection over a virtual-time asyncio loop; monitor on every state assignment",
            "SimLoop (real asyncio scheduler, virtual clock) and SimTransport model; resolver/connect stubs; schedule integers are solver-forked"),
    "C06": ("DESIGN.md 3/C06", "real connect with symbolic HelloResponse/ConnectResponse fields (major/minor in [0,2^32), names of length <= 2, password verdict), symbolic expected name, 4 response orders/chunkings, login on/off, plaintext and noise",
            "pbstub doubles carry symbolic fields through the real dispatch; noise handshake concrete against vf/noise_ref.py"),
    "C07": ("DESIGN.md 3/C07", "every sequence of 3 events (thorough: also 4 events over a reduced alphabet) of close causes in every order and multiplicity, same-chunk/same-turn combinations and ping timeout, after 4/5 lifecycle stages and the noise-handshake stage; count and argument of the stop callback vs a three-valued reference",
            "SimLoop/SimTransport; ties between a disconnect() call and another close cause in one loop turn are don't-care"),
    "C08": ("DESIGN.md 3/C08", "every sequence of 3 events (thorough: also 4 over a reduced alphabet) after 7 lifecycle stages (incl. the real resolver) and the noise-handshake stage; after any close: transports and owned sockets closed, no live timer (incl. request timers), no pending call, no write and no subscriber delivery in CLOSED; a connection whose transport is gone must be CLOSED",
            "SimLoop/SimTransport/FakeSock; sockets whose hand-over raced a task cancellation never reached the connection and are excluded"),
    "C09": ("DESIGN.md 3/C09", "every sequence of 3 fault/device/user events (thorough: also 4 over a reduced alphabet) after 7 stages (+ noise handshake stage, + two address groups), then virtual time runs until every call ended: documented time bounds, APIConnectionError-only outcomes, no unrequested cancellation, no deadlock, first fatal cause seen by waiting calls",
            "virtual clock (callbacks take zero time); one or two address groups; first-cause reference for garbage / undecodable / noise-marker / EOF / the disconnect wait running out"),
    "C10": ("DESIGN.md 3/C10", "each real keep-alive callback is exactly one step of the reference automaton from every abstract state (K symbolic, instants symbolic), end-to-end runs with 1-3 (quick) / up to 5 (thorough) arrivals at symbolic times vs the automaton, z3 BMC of the automaton and the closed-form window",
            "integer time grid (K*4.5 exact); the float product K*4.5 in the constructor is checked for 12 concrete K only; ties timer-first"),
    "C11": ("DESIGN.md 3/C11", "two concurrent request-response calls (4 predicate/type configurations with symbolic parameters), every sequence of 4/5 events (messages with symbolic keys, loop turns, timers, caller cancellation, close, late start of the second call) vs an independent reference model; leftovers audit",
            "pbstub doubles; SimLoop; close reported through report_fatal_error"),
    "C12": ("DESIGN.md 3/C12", "process_packet for every type number in [0, 2^64) with empty/valid/undecodable payloads, scripted subscribers (subscribe/unsubscribe inside callbacks), replies to ping/time/disconnect requests, per-subscriber order over mixed sequences",
            "SymTuple models tuple indexing for a symbolic index; one valid and one undecodable payload per type (protobuf decoding is C)"),
    "C13": ("DESIGN.md 3/C13", "z3 queries (negations unsat) over api.proto text, compiled descriptors and the three lookup tables (presence, uniqueness, contiguity, positional lookup with Python index semantics, reverse map); CrossHair sweep of every public APIClient method and the connection's internal traffic against the source options",
            "own tokenizer of api.proto; RecordingConn stands in for the connection in the client sweep"),
    "C14": ("DESIGN.md 3/C14", "z3 queries over enum number/name maps and message/model field sets; CrossHair conversion of doubles with symbolic field values through from_pb / to_dict / from_dict; float fix-up with contract stubs for log10/round",
            "numerical behaviour of libm log10 and round on float32 bit patterns is not addressed; pbstub doubles"),
    "C15": ("DESIGN.md 3/C15", "every command method with every subset of optional arguments (symbolic Optional values, symbolic API version) against the exact set of assigned request fields",
            "pbstub doubles (protobuf's own float32 rounding / type checks on assignment are outside); durations over exact rationals"),
    "C16": ("DESIGN.md 3/C16", "the four Bluetooth filters on fully symbolic addresses/handles; two concurrent GATT operations with symbolic (address, handle) and 2-3 device messages of forked type delivered in the same or separate turns vs a reference model; connect timeout path",
            "pbstub doubles; SimLoop; error-text formatting helpers replaced (they realise symbolic ints)"),
    "C17": ("DESIGN.md 3/C17", "inductive camera reassembly step from an arbitrary buffer (symbolic keys/chunks), every state type through the real subscribe_states path, every subscribe_* with all subscribe/unsubscribe points, voice-assistant handler outcomes",
            "pbstub doubles; SimLoop; float fix-up fields left at 0.0 (C14)"),
    "C18": ("DESIGN.md 3/C18", "real ReconnectLogic on the virtual-time loop with a fake client and fake zeroconf: event sequences of attempt outcomes, session ends, mDNS records, start/stop; monitors for single attempt/session, back-off instants, callback alternation, clean stop; z3 check of the back-off table",
            "FakeClient (the client itself is C05-C09/C19's subject); float pow rounding argued by interval, not solved"),
    "C19": ("DESIGN.md 3/C19", "real APIClient over 12 concrete histories (earlier sessions/attempts, an attempt still resolving, a stop callback that reconnects) x every sequence of 3/4 client calls and device/fault events; acceptance of start/connect vs the monitor's model (close causes tracked by the harness); commands/subscriptions/requests without a live session must raise and write nothing; every call ends with a result or a connection error",
            "SimLoop/SimTransport; monitor model independent of APIClient internals"),
    "C20": ("DESIGN.md 3/C20", "host_is_name_part/address_is_local on symbolic strings; real async_resolve_host over forked host forms x mDNS outcomes x OS-resolver outcomes vs the decision table; zeroconf ownership over operation sequences",
            "stub AsyncServiceInfo / AsyncZeroconf / getaddrinfo; host strings chosen by fork from small tables"),
}
ENABLED = set(os.environ.get('VF_ENABLED', ','.join('C%02d' % i for i in range(1, 21))).split(','))
NOT_YET = "check not built yet in this round (see DESIGN.md 8 build order); no claim is made"

props = [json.loads(l) for l in open(os.path.join(ROOT, "properties.jsonl"))]
checks = []
na = []
for p in props:
    i = p["id"]
    if i in BUILT and os.path.exists(os.path.join(ROOT, 'vf', 'harness', i.lower() + '.py')) and i in ENABLED:
        ref, text, note = BUILT[i]
        checks.append({
            "property_id": i,
            "quick_cmd": f"./check {i} quick",
            "thorough_cmd": f"./check {i} thorough",
            "evidence_file": f"evidence/{i}.json",
            "replay_cmd_template": "./check --replay {path}",
            "engine": "crosshair+z3",
            "level_claimed": {
                "category": "other",
                "text": "bounded symbolic execution of the real code (CrossHair + z3), exhaustive within the stated bounds; direct z3 queries for finite tables/models. " + text,
                "design_ref": ref,
            },
            "level_note": note,
            "technique": "solver-based checking of the real code (symbolic execution with CrossHair, z3 deciding every path; direct z3 queries)",
        })
    else:
        na.append({"property_id": i, "reason": NOT_YET})

man = {
    "version": 1,
    "setup_cmd": "./setup.sh",
    "hooks": {
        "guard": "AIOESPHOMEAPI_VERIF",
        "enable": "no guarded code exists in /repo: every observation point is reachable from outside (sub-classing, recording transports, simulated loop); checks run /repo's working tree as is",
        "baseline_off_cmd": "cd /repo && /venv/bin/python -m pytest -ra -q -p no:cacheprovider --timeout=900 --continue-on-collection-errors",
        "source_commits": [],  # no guarded hooks; the unguarded "fix:" commits in /repo are listed in known_findings.json
        "add_only": True,
    },
    "engines": [
        {"name": "crosshair+z3", "path": "vf/runner.py", "serves_properties": [c["property_id"] for c in checks],
         "kind_free_text": "CrossHair 0.0.110 symbolic execution of /repo's Python with z3, sharded over 16 processes; plugin vf/plugin.py; native replay vf/replay.py; direct z3 queries in harness modules' smt_obligations()"},
    ],
    "checks": checks,
    "notes": "VERIF_SEED only permutes shard order. Exit 2 is reserved for harness errors (never a VIOLATION line). known_findings.json lists recorded genuine defects (open) and repaired ones (fixed: ... <commit>). VF_REPO/VF_OUT redirect a run to a scratch copy (tools/try_seed.sh).",
    "not_applicable": na,
}
with open(os.path.join(ROOT, "MANIFEST.json"), "w") as f:
    json.dump(man, f, indent=1)
print("checks:", [c["property_id"] for c in checks], "not_applicable:", len(na))
