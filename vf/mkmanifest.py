"""Regenerate MANIFEST.json from the table below (run by hand after adding a check)."""
import json
import os

ROOT = os.path.dirname(os.path.dirname(os.path.abspath(__file__)))

BUILT = {
    "C01": ("DESIGN.md 3/C01", "inductive one-chunk step of the plaintext reassembly from every valid buffer state (all cut pairs, symbolic types and payload bytes, three chunk types) plus end-to-end 2-3 chunk runs and _read_varuint on arbitrary bytes",
            "CrossHair bytes/bytearray/memoryview models; reference encoder; representation invariant of the buffer stated in the harness and re-established end-to-end by h01b"),
    # id: (design_ref, level text, level note)
    "C02": ("DESIGN.md 3/C02", "every batch written by the plaintext helper decodes under the strict reference decoder to the packets given, for all symbolic types/payload bytes inside the listed length classes; varuint encoder exact for all v < 2^64",
            "CrossHair int/bytes models + plugin bit-op encodings; reference decoder is the documented format; noise part: ideal-AEAD recorder, concrete keys"),
}
NOT_YET = "check not built yet in this round (see DESIGN.md 8 build order); no claim is made"

props = [json.loads(l) for l in open(os.path.join(ROOT, "properties.jsonl"))]
checks = []
na = []
for p in props:
    i = p["id"]
    if i in BUILT:
        ref, text, note = BUILT[i]
        checks.append({
            "property_id": i,
            "quick_cmd": f"./check {i} quick",
            "thorough_cmd": f"./check {i} thorough",
            "evidence_file": f"evidence/{i}.json",
            "replay_cmd_template": "./check --replay {path}",
            "engine": "crosshair+z3",
            "level_claimed": {
                "category": "other",
                "text": "bounded symbolic execution of the real code (CrossHair + z3), exhaustive within the stated bounds; direct z3 queries for finite tables/models. " + text,
                "design_ref": ref,
            },
            "level_note": note,
            "technique": "solver-based checking of the real code (symbolic execution with CrossHair, z3 deciding every path; direct z3 queries)",
        })
    else:
        na.append({"property_id": i, "reason": NOT_YET})

man = {
    "version": 1,
    "setup_cmd": "./setup.sh",
    "hooks": {
        "guard": "AIOESPHOMEAPI_VERIF",
        "enable": "no guarded code exists in /repo: every observation point is reachable from outside (sub-classing, recording transports, simulated loop); checks run /repo's working tree as is",
        "baseline_off_cmd": "cd /repo && /venv/bin/python -m pytest -ra -q -p no:cacheprovider --timeout=900 --continue-on-collection-errors",
        "source_commits": [],
        "add_only": True,
    },
    "engines": [
        {"name": "crosshair+z3", "path": "vf/runner.py", "serves_properties": [c["property_id"] for c in checks],
         "kind_free_text": "CrossHair 0.0.110 symbolic execution of /repo's Python with z3, sharded over 16 processes; plugin vf/plugin.py; native replay vf/replay.py; direct z3 queries in harness modules' smt_obligations()"},
    ],
    "checks": checks,
    "notes": "VERIF_SEED only permutes shard order. Exit 2 is reserved for harness errors (never a VIOLATION line). known_findings.json lists recorded genuine defects.",
    "not_applicable": na,
}
with open(os.path.join(ROOT, "MANIFEST.json"), "w") as f:
    json.dump(man, f, indent=1)
print("checks:", [c["property_id"] for c in checks], "not_applicable:", len(na))
