"""A CONNECTED real APIClient / APIConnection on the SimLoop with a recording frame helper.

Used by the C16 / C17 scenario harnesses: the subject there is the client layer (request builders,
handler registration, filters, `process_packet` dispatch), not the connect phase (C05-C09), so the
connection is put into CONNECTED directly (as design_probes/c10b.py does) and everything it writes
is recorded as (type id, payload) packets.  With `pbstub` doubles installed the payload is a token
that `sent()` resolves back to the double, so field values stay symbolic end to end.
"""
from __future__ import annotations

from functools import partial

import aioesphomeapi.client as CL
import aioesphomeapi.connection as CN
from aioesphomeapi.connection import ConnectionState
from aioesphomeapi.model import APIVersion

from vf import pbstub
from vf.simloop import SimLoop
from vf.track import NoTracing


class RecHelper:
    """stand-in for the frame helper: records the packets the connection hands over."""

    def __init__(self) -> None:
        self.packets: list = []  # (virtual time, type id, payload)
        self.loop = None

    def write_packets(self, packets, debug_enabled) -> None:
        now = self.loop._vnow if self.loop is not None else 0
        for t, d in packets:
            self.packets.append((now, t, d))

    def close(self) -> None:
        pass

    def set_log_name(self, name) -> None:
        pass


class ClientWorld:
    def __init__(self) -> None:
        self.loop = SimLoop().activate()
        with NoTracing():
            cli = CL.APIClient("10.0.0.1", 6053, None)
            conn = CN.APIConnection(cli._params, partial(cli._on_stop, None), False, cli.log_name)
            helper = RecHelper()
            helper.loop = self.loop
            conn._frame_helper = helper
            conn._set_connection_state(ConnectionState.CONNECTED)
            conn.api_version = APIVersion(1, 10)
            cli._connection = conn
        self.cli = cli
        self.conn = conn
        self.helper = helper
        self.closed = False

    # ---- device side
    def deliver(self, stub_msg) -> None:
        """one frame from the device: the real process_packet on the double's token."""
        t = CN.PROTO_TO_MESSAGE_TYPE[type(stub_msg)]
        self.conn.process_packet(t, stub_msg.SerializeToString())

    # ---- observations
    def sent(self, start: int = 0) -> list:
        """[(time, double-or-bytes)] of everything written since packet index `start`."""
        out = []
        for now, t, d in self.helper.packets[start:]:
            out.append((now, resolve(d)))
        return out

    def n_sent(self) -> int:
        return len(self.helper.packets)

    def handlers(self) -> list:
        """every callable currently registered in the connection's handler table (any type)."""
        out = []
        for hs in self.conn._message_handlers.values():
            for h in hs:
                out.append(h)
        return out

    def handlers_for(self, cls) -> list:
        return list(self.conn._message_handlers.get(cls, ()))

    def close(self) -> None:
        if self.closed:
            return
        self.closed = True
        self.loop.shutdown()


def resolve(payload):
    """token -> the registered double (payloads of real protobuf messages are returned as bytes)."""
    with NoTracing():
        data = bytes(payload)
        pre = pbstub._TOKEN_PREFIX
        if data.startswith(pre):
            return pbstub._REGISTRY[int(data[len(pre):].decode())]
        return data


def tname(x) -> str:
    return type(x).__name__
