"""A CONNECTED real APIClient / APIConnection on the SimLoop with a recording frame helper.

Used by the C16 / C17 scenario harnesses: the subject there is the client layer (request builders,
handler registration, filters, `process_packet` dispatch), not the connect phase (C05-C09), so the
connection is put into CONNECTED directly (as design_probes/c10b.py does) and everything it writes
is recorded as (type id, payload) packets.  With `pbstub` doubles installed the payload is a token
that `sent()` resolves back to the double, so field values stay symbolic end to end.
"""
from __future__ import annotations

from functools import partial

import aioesphomeapi.client as CL
import aioesphomeapi.connection as CN
from aioesphomeapi.connection import ConnectionState
from aioesphomeapi.model import APIVersion

from vf import pbstub
from vf.simloop import SimLoop
from vf.track import NoTracing


class RecHelper:
    """stand-in for the frame helper: records the packets the connection hands over."""

    def __init__(self) -> None:
        self.packets: list = []  # (virtual time, type id, payload)
        self.loop = None

    def write_packets(self, packets, debug_enabled) -> None:
        now = self.loop._vnow if self.loop is not None else 0
        for t, d in packets:
            self.packets.append((now, t, d))

    def close(self) -> None:
        pass

    def set_log_name(self, name) -> None:
        pass


class DetSet:
    """Handler collection with a fixed iteration order (registration order, or its reverse).

    APIConnection keeps the subscribers of one message type in a `set`; CPython iterates a set of
    callables in address order, which differs from run to run (and makes CrossHair see different
    decision sequences for one path prefix).  Any order is a legal refinement of "unspecified", so the
    harness pre-creates the per-type collections with this class: same add / discard / copy / iterate
    surface, equality-based membership like a set, deterministic order."""

    def __init__(self, items=(), reverse: bool = False) -> None:
        self._l = list(items)
        self._rev = reverse

    def add(self, x) -> None:
        for y in self._l:
            if y is x or y == x:
                return
        self._l.append(x)

    def discard(self, x) -> None:
        for i, y in enumerate(self._l):
            if y is x or y == x:
                del self._l[i]
                return

    def copy(self) -> "DetSet":
        return DetSet(self._l, self._rev)

    def clear(self) -> None:
        del self._l[:]

    def __iter__(self):
        return iter(self._l[::-1] if self._rev else list(self._l))

    def __len__(self) -> int:
        return len(self._l)

    def __bool__(self) -> bool:
        return bool(self._l)

    def __contains__(self, x) -> bool:
        return any(y is x or y == x for y in self._l)


class ClientWorld:
    def __init__(self, ordered_types=(), reverse: bool = False) -> None:
        self.loop = SimLoop().activate()
        with NoTracing():
            cli = CL.APIClient("10.0.0.1", 6053, None)
            conn = CN.APIConnection(cli._params, partial(cli._on_stop, None), False, cli.log_name)
            helper = RecHelper()
            helper.loop = self.loop
            conn._frame_helper = helper
            conn._set_connection_state(ConnectionState.CONNECTED)
            conn.api_version = APIVersion(1, 10)
            cli._connection = conn
            for cls in ordered_types:
                conn._message_handlers[cls] = DetSet(reverse=reverse)
        self.cli = cli
        self.conn = conn
        self.helper = helper
        self.closed = False

    # ---- device side
    def deliver(self, stub_msg) -> None:
        """one frame from the device: the real process_packet on the double's token."""
        t = CN.PROTO_TO_MESSAGE_TYPE[type(stub_msg)]
        self.conn.process_packet(t, stub_msg.SerializeToString())

    # ---- observations
    def sent(self, start: int = 0) -> list:
        """[(time, double-or-bytes)] of everything written since packet index `start`."""
        out = []
        for now, t, d in self.helper.packets[start:]:
            out.append((now, resolve(d)))
        return out

    def n_sent(self) -> int:
        return len(self.helper.packets)

    def handlers(self) -> list:
        """every callable currently registered in the connection's handler table (any type)."""
        out = []
        for hs in self.conn._message_handlers.values():
            for h in hs:
                out.append(h)
        return out

    def handlers_for(self, cls) -> list:
        return list(self.conn._message_handlers.get(cls, ()))

    def close(self) -> None:
        if self.closed:
            return
        self.closed = True
        self.loop.shutdown()


def resolve(payload):
    """token -> the registered double (payloads of real protobuf messages are returned as bytes)."""
    with NoTracing():
        data = bytes(payload)
        pre = pbstub._TOKEN_PREFIX
        if data.startswith(pre):
            return pbstub._REGISTRY[int(data[len(pre):].decode())]
        return data


def tname(x) -> str:
    return type(x).__name__
