"""Native (no CrossHair) evaluation of one harness call.

usage: python -m vf.replay <module> '<call expression>' [--profile]
Prints a JSON object: {"result": true/false/"exception", "explain": [...], "functions": [...]}.
"""
from __future__ import annotations

import importlib
import json
import sys
import traceback


def run(mod_name: str, call: str, profile: bool = False) -> dict:
    import logging

    logging.disable(logging.CRITICAL)
    from vf import track

    mod = importlib.import_module(mod_name)
    funcs = set()

    def prof(frame, event, arg):
        if event == "call":
            fn = frame.f_code.co_filename
            if "/aioesphomeapi/" in fn and "/site-packages/" not in fn:
                if not fn.endswith("_pb2.py"):
                    funcs.add(fn.split("/aioesphomeapi/")[-1] + ":" + frame.f_code.co_qualname)

    out: dict = {}
    ns = dict(mod.__dict__)
    try:
        if profile:
            sys.setprofile(prof)
        try:
            r = eval(call, ns)
        finally:
            sys.setprofile(None)
        out["result"] = bool(r)
    except Exception as e:  # noqa: BLE001
        out["result"] = "exception"
        out["exception"] = f"{type(e).__name__}: {e}"
        out["traceback"] = traceback.format_exc()[-3000:]
    out["explain"] = list(track.EXPLAIN)
    out["functions"] = sorted(funcs)
    return out


if __name__ == "__main__":
    res = run(sys.argv[1], sys.argv[2], "--profile" in sys.argv[3:])
    print("\n@@REPLAY@@" + json.dumps(res))
