from vf import plugin
plugin.install()
