"""Independent reference encoder/decoder of the two ESPHome native-API wire formats.

Written from the comment in api.proto ("A zero byte / VarInt size / VarInt type / message") and the
ESPHome Noise framing (0x01, 16-bit big-endian length, ciphertext of: 16-bit type, 16-bit length,
payload).  Uses only + - * // % and comparisons (no bit operators), so that it stays symbolic under
CrossHair without help and shares no idiom with the implementation.
"""
from __future__ import annotations


def enc_varint(v):
    """minimal LEB128 of a non-negative int, as a list of ints."""
    out = []
    while True:
        if v < 128:
            out.append(v)
            return out
        out.append(v % 128 + 128)
        v = v // 128


def varint_len(v) -> int:
    n = 1
    while v >= 128:
        v = v // 128
        n += 1
    return n


def dec_varint_strict(buf, pos):
    """decode a *minimal* varint at buf[pos:]; returns (value, newpos) or None when malformed/short."""
    val = 0
    mul = 1
    n = len(buf)
    start = pos
    while True:
        if pos >= n:
            return None
        b = buf[pos]
        pos += 1
        if b < 128:
            if b == 0 and pos - start > 1:
                return None  # non-minimal (trailing zero group)
            return (val + b * mul, pos)
        val = val + (b - 128) * mul
        mul = mul * 128


def dec_varint_lenient(buf, pos):
    """decode a varint as a standard protobuf reader would (non-minimal accepted);
    returns (value, newpos) or None when the buffer ends first."""
    val = 0
    mul = 1
    n = len(buf)
    while True:
        if pos >= n:
            return None
        b = buf[pos]
        pos += 1
        if b < 128:
            return (val + b * mul, pos)
        val = val + (b - 128) * mul
        mul = mul * 128


def enc_plain_frame(msg_type, payload) -> bytes:
    return bytes([0] + enc_varint(len(payload)) + enc_varint(msg_type)) + bytes(payload)


def dec_plain_stream_strict(buf):
    """decode a whole plaintext stream; returns list of (type, payload) or None unless it is exactly
    a concatenation of well-formed frames with minimal varints."""
    out = []
    pos = 0
    n = len(buf)
    while pos < n:
        if buf[pos] != 0:
            return None
        r = dec_varint_strict(buf, pos + 1)
        if r is None:
            return None
        ln, pos2 = r
        r = dec_varint_strict(buf, pos2)
        if r is None:
            return None
        typ, pos3 = r
        if pos3 + ln > n:
            return None
        out.append((typ, bytes(buf[pos3 : pos3 + ln])))
        pos = pos3 + ln
    return out


def be16(v):
    return [v // 256, v % 256]


def enc_noise_outer(ct) -> bytes:
    return bytes([1] + be16(len(ct))) + bytes(ct)


def enc_noise_inner(msg_type, payload) -> bytes:
    return bytes(be16(msg_type) + be16(len(payload))) + bytes(payload)


def dec_noise_outer_stream(buf):
    """split a stream into noise frames (list of ciphertext bytes) or None if malformed."""
    out = []
    pos = 0
    n = len(buf)
    while pos < n:
        if pos + 3 > n or buf[pos] != 1:
            return None
        ln = buf[pos + 1] * 256 + buf[pos + 2]
        if pos + 3 + ln > n:
            return None
        out.append(bytes(buf[pos + 3 : pos + 3 + ln]))
        pos += 3 + ln
    return out


def dec_noise_inner(pt):
    """(type, payload) from a decrypted noise frame, or None if the header is inconsistent."""
    if len(pt) < 4:
        return None
    typ = pt[0] * 256 + pt[1]
    ln = pt[2] * 256 + pt[3]
    if len(pt) - 4 != ln:
        return None
    return (typ, bytes(pt[4:]))
