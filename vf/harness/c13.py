"""C13 -- message-id registry equals api.proto ids; traffic respects direction."""
from __future__ import annotations

import asyncio
import inspect
import os
import re
import time
from typing import Optional

import aioesphomeapi
import aioesphomeapi.client as CL
import aioesphomeapi.connection as CN
import aioesphomeapi.core as CORE
from aioesphomeapi import api_options_pb2, api_pb2
from aioesphomeapi.model import APIVersion, UserService, UserServiceArg, UserServiceArgType

from vf import track
from vf.harness.common import base_loop, concretize, shard_int

PROPERTY = "C13"
SRC_BOTH, SRC_SERVER, SRC_CLIENT = 0, 1, 2
SRC_NAMES = {"SOURCE_BOTH": 0, "SOURCE_SERVER": 1, "SOURCE_CLIENT": 2}


# --------------------------------------------------------------------------------------------
# finite maps, rebuilt from the current tree on every run
# --------------------------------------------------------------------------------------------
def proto_text_map() -> dict:
    """message name -> (id or 0, source) from the text of api.proto (own tokenizer)."""
    path = os.path.join(os.path.dirname(aioesphomeapi.__file__), "api.proto")
    with open(path, encoding="utf-8") as f:
        text = f.read()
    text = re.sub(r"//[^\n]*", "", text)
    out = {}
    pos = 0
    for m in re.finditer(r"\bmessage\s+(\w+)\s*\{", text):
        if m.start() < pos:
            continue  # nested message inside a body already consumed
        depth = 1
        i = m.end()
        top = []
        seg_start = i
        while depth and i < len(text):
            c = text[i]
            if c == "{":
                if depth == 1:
                    top.append(text[seg_start:i])
                depth += 1
            elif c == "}":
                depth -= 1
                if depth == 1:
                    seg_start = i + 1
            i += 1
        top.append(text[seg_start:i - 1] if depth == 0 else "")
        body = " ".join(top)
        mid = re.search(r"option\s*\(\s*id\s*\)\s*=\s*(\d+)\s*;", body)
        msrc = re.search(r"option\s*\(\s*source\s*\)\s*=\s*(\w+)\s*;", body)
        out[m.group(1)] = (int(mid.group(1)) if mid else 0, SRC_NAMES[msrc.group(1)] if msrc else SRC_BOTH)
        pos = i
    return out


def descriptor_map() -> dict:
    out = {}
    for name, d in api_pb2.DESCRIPTOR.message_types_by_name.items():
        o = d.GetOptions()
        mid = o.Extensions[api_options_pb2.id] if o.HasExtension(api_options_pb2.id) else 0
        src = o.Extensions[api_options_pb2.source] if o.HasExtension(api_options_pb2.source) else SRC_BOTH
        out[name] = (int(mid), int(src))
    return out


SOURCE_OF = {getattr(api_pb2, n): s for n, (_i, s) in descriptor_map().items() if hasattr(api_pb2, n)}


def smt_obligations(tier: str) -> list:
    import z3

    t_all = time.time()
    text = proto_text_map()
    desc = descriptor_map()
    names = sorted(set(text) | set(desc) | {c.__name__ for c in CORE.MESSAGE_TYPE_TO_PROTO.values()})
    ix = {n: i for i, n in enumerate(names)}
    M = len(names)
    NONE = -1
    table = {int(k): ix[v.__name__] for k, v in CORE.MESSAGE_TYPE_TO_PROTO.items()}
    tup = [ix[c.__name__] for c in CN.MESSAGE_NUMBER_TO_PROTO]
    rev = {ix[c.__name__]: int(v) for c, v in CN.PROTO_TO_MESSAGE_TYPE.items()}
    # also: table values must be the api_pb2 classes of that name (identity), checked while building
    ident_bad = [n for k, c in CORE.MESSAGE_TYPE_TO_PROTO.items() for n in [c.__name__] if getattr(api_pb2, n, None) is not c]
    maxid = max([i for i, _ in text.values()] + [0])

    I = z3.IntSort()

    def fn(name, mapping, default):
        # finite map as a quantifier-free macro (nested ite over the keys)
        def f(x):
            body = z3.IntVal(default)
            for k_, v_ in mapping.items():
                body = z3.If(x == k_, z3.IntVal(v_), body)
            return body
        return f

    text_id = fn("text_id", {ix[n]: v[0] for n, v in text.items()}, 0)
    text_src = fn("text_src", {ix[n]: v[1] for n, v in text.items()}, SRC_BOTH)
    desc_id = fn("desc_id", {ix[n]: v[0] for n, v in desc.items()}, 0)
    desc_src = fn("desc_src", {ix[n]: v[1] for n, v in desc.items()}, SRC_BOTH)
    in_text = fn("in_text", {ix[n]: 1 for n in text}, 0)
    in_desc = fn("in_desc", {ix[n]: 1 for n in desc}, 0)
    tab = fn("table", table, NONE)
    tupf = fn("tuple", {i: v for i, v in enumerate(tup)}, NONE)
    revf = fn("rev", rev, 0)
    axioms = []
    n_tup = len(tup)
    m, m2, k = z3.Ints("m m2 k")
    dom_m = z3.And(m >= 0, m < M)
    dom_m2 = z3.And(m2 >= 0, m2 < M)
    py_index = z3.If(k - 1 < 0, k - 1 + n_tup, k - 1)  # Python's tuple index semantics for tuple[k - 1]
    in_range = z3.And(py_index >= 0, py_index < n_tup)
    queries = [
        ("text-vs-descriptor", "a message whose id/source/presence differs between api.proto text and compiled descriptor",
         z3.And(dom_m, z3.Or(text_id(m) != desc_id(m), text_src(m) != desc_src(m), in_text(m) != in_desc(m))), [m]),
        ("declared-id-in-table", "a message with a declared id that MESSAGE_TYPE_TO_PROTO lacks or maps to another class",
         z3.And(dom_m, text_id(m) > 0, tab(text_id(m)) != m), [m]),
        ("table-key-declared", "a MESSAGE_TYPE_TO_PROTO key that api.proto does not declare for that class",
         z3.And(tab(k) != NONE, z3.Or(tab(k) < 0, tab(k) >= M, text_id(tab(k)) != k)), [k]),
        ("ids-unique", "two messages sharing one id",
         z3.And(dom_m, dom_m2, m != m2, text_id(m) > 0, text_id(m) == text_id(m2)), [m, m2]),
        ("ids-contiguous", "a gap in 1..max",
         z3.And(k >= 1, k <= maxid, *[text_id(z3.IntVal(i)) != k for i in range(M)]), [k]),
        ("positional-lookup", "an id in [1, max] for which MESSAGE_NUMBER_TO_PROTO[id - 1] (Python index semantics) is not the declared class",
         z3.And(k >= 1, k <= maxid, z3.Or(z3.Not(in_range), z3.And(dom_m, text_id(m) == k, tupf(py_index) != m))), [k, m]),
        ("positional-nothing-else", "a type number above max that positional lookup resolves to a class (wire type numbers are unsigned; 0 is handled by process_packet's guard, see C12)",
         z3.And(k > maxid, in_range), [k]),
        ("reverse-map", "a class whose PROTO_TO_MESSAGE_TYPE entry differs from its declared id",
         z3.And(dom_m, z3.Or(z3.And(text_id(m) > 0, revf(m) != text_id(m)), z3.And(text_id(m) == 0, revf(m) != 0))), [m]),
    ]
    out = []
    for name, what, q, wvars in queries:
        t0 = time.time()
        s = z3.Solver()
        s.set("timeout", 120000)
        s.add(*axioms)
        s.add(q)
        r = str(s.check())
        ob = {"name": name, "what": "no " + what, "status": r if r in ("sat", "unsat") else "unknown",
              "seconds": round(time.time() - t0, 3), "queries": 1,
              "sample": {"messages": M, "max_id": maxid, "tuple_len": n_tup}}
        if r == "sat":
            mdl = s.model()
            wit = {str(v): mdl.eval(v, model_completion=True).as_long() for v in wvars}
            wit_names = {kk: (names[vv] if kk.startswith("m") and 0 <= vv < M else vv) for kk, vv in wit.items()}
            ob["witness"] = {"query": name, "what": what, "values": wit_names}
            ob["reproduced"] = _confirm(name, wit, names, text, desc, maxid)
            ob["replay_call"] = f"replay_registry({name!r})"
        out.append(ob)
    t0 = time.time()
    out.append({"name": "table-identity", "what": "every table value is the api_pb2 class of that name",
                "status": "unsat" if not ident_bad else "sat", "seconds": round(time.time() - t0, 3), "queries": 1,
                "witness": ident_bad[:3], "reproduced": bool(ident_bad), "replay_call": "replay_registry('table-identity')"})
    return out


def _confirm(name, wit, names, text, desc, maxid) -> bool:
    """re-check a z3 witness on the real objects (no z3)."""
    try:
        if name == "text-vs-descriptor":
            n = names[wit["m"]]
            return text.get(n) != desc.get(n)
        if name == "declared-id-in-table":
            n = names[wit["m"]]
            c = CORE.MESSAGE_TYPE_TO_PROTO.get(text[n][0])
            return c is None or c.__name__ != n
        if name == "table-key-declared":
            c = CORE.MESSAGE_TYPE_TO_PROTO[wit["k"]]
            return text.get(c.__name__, (0, 0))[0] != wit["k"]
        if name == "ids-unique":
            return text[names[wit["m"]]][0] == text[names[wit["m2"]]][0]
        if name == "ids-contiguous":
            return wit["k"] not in {i for i, _ in text.values()}
        if name == "positional-lookup":
            want = [n for n, v in text.items() if v[0] == wit["k"]]
            try:
                got = CN.MESSAGE_NUMBER_TO_PROTO[wit["k"] - 1]
            except IndexError:
                return True
            return not want or got.__name__ != want[0]
        if name == "positional-nothing-else":
            try:
                CN.MESSAGE_NUMBER_TO_PROTO[wit["k"] - 1]
            except IndexError:
                return False
            return True
        if name == "reverse-map":
            n = names[wit["m"]]
            c = getattr(api_pb2, n, None)
            return CN.PROTO_TO_MESSAGE_TYPE.get(c, 0) != text.get(n, (0, 0))[0]
    except Exception:  # noqa: BLE001
        return True
    return False


def replay_registry(name: str) -> bool:
    """native replay of a registry obligation: True iff it holds on this tree."""
    for ob in smt_obligations("quick"):
        if ob["name"] == name:
            if ob["status"] != "unsat":
                track.fail(f"registry obligation {name} violated: {ob.get('witness')}")
                return False
            return True
    return True


# --------------------------------------------------------------------------------------------
# E1 sweep: every public client entry point; classes sent / subscribed vs the source options
# --------------------------------------------------------------------------------------------
class RecordingConn:
    """what APIClient needs from a CONNECTED APIConnection; records message classes per direction."""

    def __init__(self, apiv):
        self.is_connected = True
        self.api_version = apiv
        self.connected_address = "10.0.0.1"
        self.received_name = ""
        self.sent = []
        self.subscribed = []
        self.callbacks = []  # (callback, message types) registered by the client
        self._loop = asyncio.get_event_loop()

    def set_log_name(self, n):
        pass

    def send_message(self, msg):
        self.sent.append(type(msg))

    def send_messages(self, msgs):
        for m in msgs:
            self.sent.append(type(m))

    def add_message_callback(self, cb, msg_types):
        self.subscribed.extend(msg_types)
        self.callbacks.append((cb, msg_types))
        return lambda: None

    def send_message_callback_response(self, send_msg, on_message, msg_types):
        self.sent.append(type(send_msg))
        self.subscribed.extend(msg_types)
        self.callbacks.append((on_message, msg_types))
        return lambda: None

    async def send_messages_await_response_complex(self, messages, do_append, do_stop, msg_types, timeout):
        for m in messages:
            self.sent.append(type(m))
        self.subscribed.extend(msg_types)
        await self._loop.create_future()  # never answered: the sweep only needs what is sent/subscribed

    async def send_message_await_response(self, send_msg, response_type, timeout=10.0):
        self.sent.append(type(send_msg))
        self.subscribed.append(response_type)
        await self._loop.create_future()


def _public_methods() -> list:
    skip = {"connect", "start_connection", "finish_connection", "disconnect", "set_debug", "set_cached_name_if_unset"}
    out = []
    for n, f in inspect.getmembers(CL.APIClient, predicate=inspect.isfunction):
        if n.startswith("_") or n in skip:
            continue
        out.append(n)
    return sorted(out)


METHODS = _public_methods()
NM = len(METHODS)
MSEL = shard_int("MSEL", -1)


async def _acb(*a, **k):
    return None


async def _acb_pending(*a, **k):
    # a user handler that is still running (e.g. a voice-assistant start handler bringing a server up)
    await asyncio.get_running_loop().create_future()


def _instances(cls) -> list:
    """message instances to hand to a registered callback: the default one and one with every bool set."""
    out = [cls()]
    try:
        m = cls()
        from google.protobuf.descriptor import FieldDescriptor as FD

        for f in cls.DESCRIPTOR.fields:
            if f.type == FD.TYPE_BOOL and not f.is_repeated:
                setattr(m, f.name, True)
        out.append(m)
    except Exception:  # noqa: BLE001
        pass
    return out


def _cb(*a, **k):
    return None


_SERVICE = UserService(name="s", key=1, args=[UserServiceArg(name="a", type=UserServiceArgType.INT),
                                               UserServiceArg(name="b", type=UserServiceArgType.BOOL_ARRAY)])


def _arg_for(pname: str, ann: str, b: bool, o: int, n: int):
    """argument for a parameter from its annotation; b / o / n are the symbolic bool / presence / int."""
    a = ann.replace(" ", "")
    optional = "|None" in a or a.startswith("Optional")
    if pname == "service":
        return _SERVICE
    if pname == "data" and "ExecuteServiceDataType" in a:
        return {"a": n, "b": [True]}
    if "Callable" in a:
        if optional and o == 0:
            return None
        if "Coroutine" in a or "Awaitable" in a:
            return _acb_pending if b else _acb
        return _cb
    if optional and o == 0:
        return None
    if a.startswith("bool"):
        return b
    if a.startswith("int"):
        return n
    if a.startswith("float"):
        return 1.5
    if a.startswith("str"):
        return "x"
    if a.startswith("bytes"):
        return b"x"
    if a.startswith("tuple[float"):
        return (0.1, 0.2, 0.3)
    if a.startswith("list[str]"):
        return ["w"]
    if a.startswith("dict[str,str]"):
        return {"k": "v"}
    return n  # enums and enum-like ints


def h13_sweep(mi: int, b0: bool, b1: bool, o0: int, o1: int, o2: int, o3: int, n0: int, major: int, minor: int) -> bool:
    """
    pre: mi == MSEL
    pre: 0 <= o0 <= 1 and 0 <= o1 <= 1 and 0 <= o2 <= 1 and 0 <= o3 <= 1
    pre: 0 <= n0 <= 3
    pre: 1 <= major <= 2 and 0 <= minor <= 12
    post: _
    """
    track.entered()
    from vf.simloop import SimLoop

    loop = SimLoop().activate()
    try:
        name = METHODS[MSEL]
        cli = CL.APIClient("10.0.0.1", 6053, None)
        conn = RecordingConn(APIVersion(major, minor))
        cli._connection = conn
        meth = getattr(cli, name)
        sig = inspect.signature(meth)
        bools = [b0, b1]
        opts = [o0, o1, o2, o3]
        kwargs = {}
        bi = oi = 0
        for pn, p in sig.parameters.items():
            ann = p.annotation if isinstance(p.annotation, str) else getattr(p.annotation, "__name__", str(p.annotation))
            kwargs[pn] = _arg_for(pn, ann, bools[bi % 2], opts[oi % 4], n0)
            if ann.replace(" ", "").startswith("bool"):
                bi += 1
            if "None" in ann:
                oi += 1
        coro = None
        unsub = None
        try:
            r = meth(**kwargs)
            if inspect.iscoroutine(r):
                coro = r
                try:
                    r.send(None)  # run to the first suspension: everything is sent/registered before it
                except StopIteration:
                    pass
                except Exception:  # noqa: BLE001
                    pass
            elif callable(r):
                unsub = r
        except Exception:  # noqa: BLE001 - argument combination rejected by the method: nothing to check
            pass
        # what the client sends in reaction to device messages and on unsubscribing (also while a user
        # handler is still running) counts as client traffic too
        for cb, types in list(conn.callbacks):
            for t in types:
                for m in _instances(t):
                    try:
                        cb(m)
                    except Exception:  # noqa: BLE001
                        pass
        loop.run_ready()
        if unsub is not None:
            try:
                unsub()
            except Exception:  # noqa: BLE001
                pass
            loop.run_ready()
        if coro is not None:
            coro.close()
    finally:
        loop.shutdown()
    if track.reached():
        return False
    for c in conn.sent:
        if SOURCE_OF.get(c, SRC_BOTH) == SRC_SERVER:
            return track.fail(f"{name} sends {c.__name__}, which api.proto marks SOURCE_SERVER")
    for c in conn.subscribed:
        if SOURCE_OF.get(c, SRC_BOTH) == SRC_CLIENT:
            return track.fail(f"{name} subscribes to {c.__name__}, which api.proto marks SOURCE_CLIENT")
    if not conn.sent and not conn.subscribed and name not in ("api_version", "address", "expected_name", "zeroconf_manager"):
        # not a failure: some entry points only register callbacks lazily
        pass
    return True


def h13_internal(login: bool, ev: int) -> bool:
    """
    pre: 0 <= ev <= 3
    post: _
    """
    # internal traffic of a real connection: hello, connect, ping, time, disconnect
    from vf import refcodec as R
    from vf import scen

    track.entered()
    w = scen.World()
    try:
        conn = w.new_connection()
        w.connect_mode = "ok"

        async def full():
            await conn.start_connection()
            await conn.finish_connection(login=login)

        t = w.task(full())
        w.loop.run_ready()
        w.feed(scen.HELLO_OK + (scen.CONNECT_OK if login else b""))
        w.loop.run_ready()
        e = concretize(ev, 3)
        if e == 0:
            w.feed(scen.PING_REQ)
        elif e == 1:
            w.feed(scen.frame(api_pb2.GetTimeRequest()))
        elif e == 2:
            w.feed(scen.DISC_REQ)
        else:
            w.loop.advance()  # keep-alive tick -> PingRequest
            w.task(conn.disconnect())
        w.loop.run_ready()
        handlers = list(conn._message_handlers)
        if track.reached():
            return False
        frames = R.dec_plain_stream_strict(w.transport.written())
        if frames is None:
            return track.fail("written bytes are not well-formed frames")
        for tid, _p in frames:
            c = CORE.MESSAGE_TYPE_TO_PROTO.get(tid)
            if c is None or SOURCE_OF.get(c, SRC_BOTH) == SRC_SERVER:
                return track.fail(f"connection wrote message id {tid}, not client/both-originated")
        for c in handlers:
            if SOURCE_OF.get(c, SRC_BOTH) == SRC_CLIENT:
                return track.fail(f"connection subscribed to {c.__name__}, marked SOURCE_CLIENT")
        return True
    finally:
        w.close()


def shards(tier: str) -> list:
    out = []
    for i, n in enumerate(METHODS):
        out.append({"fn": "h13_sweep", "env": {"MSEL": i}, "cond_timeout": 200, "path_timeout": 30,
                    "desc": f"APIClient.{n}: every branch over symbolic bool/optional/int arguments and API versions; classes sent/subscribed vs source option"})
    out.append({"fn": "h13_internal", "env": {}, "cond_timeout": 200, "desc": "internal traffic of a real connection (hello/connect/ping/time/disconnect)"})
    return out


BOUNDS = {"quick": "all messages of api.proto / descriptors / tables (finite, complete); every public APIClient method with symbolic bool, presence and small-int arguments, API versions 1.0-2.12",
          "thorough": "same (the space is finite and covered completely in the quick tier)"}
OUTSIDE = ["argument values beyond the small symbolic domains used to reach every branch", "methods added to APIClient are picked up by introspection; private helpers are reached through the public ones"]
ASSUMPTIONS = ["own tokenizer of api.proto (message blocks, option (id), option (source))", "RecordingConn stands in for APIConnection in the client sweep (records classes only)",
               "source option default is SOURCE_BOTH when absent"]
EXPLANATION = "C13: z3 queries (negated clauses must be unsat) over api.proto text, compiled descriptors and the three lookup tables; CrossHair sweep of the client API for direction."
