"""C16 -- Bluetooth operations are matched by address and handle and never cross-talk."""
from __future__ import annotations

import asyncio
from contextlib import contextmanager

import aioesphomeapi.client as CL
import aioesphomeapi.client_callbacks as CB
from aioesphomeapi import api_pb2 as pb
from aioesphomeapi.core import (
    APIConnectionError,
    BluetoothConnectionDroppedError,
    BluetoothGATTAPIError,
    TimeoutAPIError,
)

from vf import pbstub, track
from vf.cliworld import ClientWorld, tname
from vf.harness.common import base_loop, concretize, same, shard_int, shard_ints
from vf.track import NoTracing

PROPERTY = "C16"

A48 = 2**48
H32 = 2**32

PB_BLE = (
    pb.BluetoothGATTReadRequest, pb.BluetoothGATTReadDescriptorRequest, pb.BluetoothGATTWriteRequest,
    pb.BluetoothGATTWriteDescriptorRequest, pb.BluetoothGATTNotifyRequest, pb.BluetoothDeviceRequest,
    pb.BluetoothGATTReadResponse, pb.BluetoothGATTWriteResponse, pb.BluetoothGATTNotifyResponse,
    pb.BluetoothGATTErrorResponse, pb.BluetoothDeviceConnectionResponse, pb.BluetoothGATTNotifyDataResponse,
    pb.BluetoothGATTGetServicesResponse, pb.BluetoothGATTGetServicesDoneResponse,
    pb.BluetoothDevicePairingResponse,
)


# The doubles are bound once per process, at import (outside any path): rebinding per path costs ~50 ms
# of untraced work and changes nothing (the bindings are the same on every path); the token registry
# is reset at the start of every path.
_INSTALL = pbstub.install(*PB_BLE)
S = _INSTALL.__enter__()


class QuietGATTError(BluetoothGATTAPIError):
    """BluetoothGATTAPIError without the message text (formatting a symbolic int realises it)."""

    def __init__(self, error) -> None:
        APIConnectionError.__init__(self, "Bluetooth GATT Error")
        self.error = error


def _addr_text(address) -> str:
    return "AA:BB:CC:DD:EE:FF"


def _gatt_text(error) -> str:
    return "gatt error"


@contextmanager
def quiet_texts():
    """Error *texts* are outside the claim: the three formatting helpers are replaced while a path runs
    (they would turn every symbolic address / handle into a solver-enumerated constant)."""
    old = (CL.to_human_readable_address, CL.to_human_readable_gatt_error, CL.BluetoothGATTAPIError)
    CL.to_human_readable_address = _addr_text
    CL.to_human_readable_gatt_error = _gatt_text
    CL.BluetoothGATTAPIError = QuietGATTError
    try:
        yield
    finally:
        CL.to_human_readable_address, CL.to_human_readable_gatt_error, CL.BluetoothGATTAPIError = old


# ----------------------------------------------------------------------------------------------
# H16a: the four filters
# ----------------------------------------------------------------------------------------------
HM_TYPES = (pb.BluetoothGATTErrorResponse, pb.BluetoothGATTNotifyResponse, pb.BluetoothGATTReadResponse,
            pb.BluetoothGATTWriteResponse, pb.BluetoothDeviceConnectionResponse)


def h16a_handle_message(address: int, handle: int, maddr: int, mhandle: int, kind: int) -> bool:
    """
    pre: 0 <= address < A48 and 0 <= maddr < A48
    pre: 0 <= handle < H32 and 0 <= mhandle < H32
    pre: 0 <= kind <= 4
    post: _
    """
    track.entered()
    pbstub.reset_registry()
    if True:
        k = concretize(kind, 4)
        cls = S[HM_TYPES[k]]
        is_conn = HM_TYPES[k] is pb.BluetoothDeviceConnectionResponse
        msg = cls(address=maddr) if is_conn else cls(address=maddr, handle=mhandle)
        got = CB.on_bluetooth_handle_message(address, handle, msg)
        if track.reached():
            return False
        if got is not True and got is not False:
            return track.fail("filter did not return a bool")
        if is_conn:
            exp = maddr == address
        else:
            exp = maddr == address and mhandle == handle
        if got != exp:
            return track.fail(f"on_bluetooth_handle_message({tname(msg)}) accepted={got}, stated equality says {exp}")
        return True


MT_UNIVERSE = (pb.BluetoothDeviceConnectionResponse, pb.BluetoothGATTErrorResponse, pb.BluetoothGATTGetServicesResponse,
               pb.BluetoothGATTGetServicesDoneResponse, pb.BluetoothDevicePairingResponse)


def h16a_message_types(address: int, maddr: int, mask: int, kind: int) -> bool:
    """
    pre: 0 <= address < A48 and 0 <= maddr < A48
    pre: 0 <= mask < 32
    pre: 0 <= kind <= 4
    post: _
    """
    track.entered()
    pbstub.reset_registry()
    if True:
        k = concretize(kind, 4)
        m = concretize(mask, 31)
        types = tuple(S[c] for i, c in enumerate(MT_UNIVERSE) if (m >> i) & 1)
        msg = S[MT_UNIVERSE[k]](address=maddr)
        got = CB.on_bluetooth_message_types(address, types, msg)
        if track.reached():
            return False
        if got is not True and got is not False:
            return track.fail("filter did not return a bool")
        exp = bool((m >> k) & 1) and maddr == address
        if got != exp:
            return track.fail(f"on_bluetooth_message_types accepted={got}, expected {exp} (type listed: {bool((m >> k) & 1)})")
        return True


def h16a_notify_data(address: int, handle: int, maddr: int, mhandle: int, data: bytes) -> bool:
    """
    pre: 0 <= address < A48 and 0 <= maddr < A48
    pre: 0 <= handle < H32 and 0 <= mhandle < H32
    pre: len(data) == 2
    post: _
    """
    track.entered()
    pbstub.reset_registry()
    if True:
        calls = []
        msg = S[pb.BluetoothGATTNotifyDataResponse](address=maddr, handle=mhandle, data=data)
        CB.on_bluetooth_gatt_notify_data_response(address, handle, lambda h, d: calls.append((h, d)), msg)
        if track.reached():
            return False
        if maddr == address and mhandle == handle:
            if len(calls) != 1:
                return track.fail(f"matching notify data delivered {len(calls)} times")
            h, d = calls[0]
            if h != handle or bytes(d) != data or not isinstance(d, bytearray):
                return track.fail("notify callback got other values than (handle, bytearray(data))")
        elif calls:
            return track.fail("notify data for another address/handle was delivered")
        return True


def h16a_connection_response(address: int, maddr: int, connected: bool, mtu: int, error: int, pre_state: int) -> bool:
    """
    pre: 0 <= address < A48 and 0 <= maddr < A48
    pre: 0 <= mtu < H32
    pre: -2**31 <= error < 2**31
    pre: 0 <= pre_state <= 2
    post: _
    """
    track.entered()
    pbstub.reset_registry()
    loop = base_loop()
    if True:
        ps = concretize(pre_state, 2)
        fut = loop.create_future()
        marker = object()
        if ps == 1:
            fut.set_result(marker)
        elif ps == 2:
            fut.set_exception(asyncio.TimeoutError())
        calls = []
        msg = S[pb.BluetoothDeviceConnectionResponse](address=maddr, connected=connected, mtu=mtu, error=error)
        CB.on_bluetooth_device_connection_response(fut, address, lambda c, m, e: calls.append((c, m, e)), msg)
        if track.reached():
            if fut.done() and ps != 1:
                fut.exception()
            return False
        ok = True
        if maddr == address:
            if len(calls) != 1:
                ok = track.fail(f"connection response for the address: state callback called {len(calls)} times")
            elif not (same(calls[0][0], connected) and calls[0][1] == mtu and calls[0][2] == error):
                ok = track.fail("state callback got other values than (connected, mtu, error)")
            elif not fut.done():
                ok = track.fail("connection response for the address did not resolve the connect future")
        else:
            if calls:
                ok = track.fail("connection response for ANOTHER address reached the state callback")
            elif ps == 0 and fut.done():
                ok = track.fail("connection response for ANOTHER address resolved the connect future")
        if ok and ps == 1 and fut.result() is not marker:
            ok = track.fail("an already resolved future was changed")
        if ok and ps == 2 and not isinstance(fut.exception(), asyncio.TimeoutError):
            ok = track.fail("an already failed future was changed")
        if fut.done() and ps != 1:
            fut.exception()  # mark retrieved
        return ok


# ----------------------------------------------------------------------------------------------
# H16b: concurrent operations against device messages
# ----------------------------------------------------------------------------------------------
K_READ, K_READ_DESC, K_WRITE, K_WRITE_DESC, K_NOTIFY, K_WRITE_NORESP = 0, 1, 2, 3, 4, 5
KIND_NAMES = ["gatt_read", "gatt_read_descriptor", "gatt_write(response=True)", "gatt_write_descriptor",
              "gatt_start_notify", "gatt_write(response=False)"]
KIND_REQ = [pb.BluetoothGATTReadRequest, pb.BluetoothGATTReadDescriptorRequest, pb.BluetoothGATTWriteRequest,
            pb.BluetoothGATTWriteDescriptorRequest, pb.BluetoothGATTNotifyRequest, pb.BluetoothGATTWriteRequest]
KIND_RESP = [pb.BluetoothGATTReadResponse, pb.BluetoothGATTReadResponse, pb.BluetoothGATTWriteResponse,
             pb.BluetoothGATTWriteResponse, pb.BluetoothGATTNotifyResponse, None]
KIND_TIMEOUT = [30.0, 30.0, 30.0, 30.0, 10.0, None]

M_READ, M_WRITE, M_NOTIFY, M_ERR, M_CONN, M_DATA = 0, 1, 2, 3, 4, 5
MSG_CLS = [pb.BluetoothGATTReadResponse, pb.BluetoothGATTWriteResponse, pb.BluetoothGATTNotifyResponse,
           pb.BluetoothGATTErrorResponse, pb.BluetoothDeviceConnectionResponse, pb.BluetoothGATTNotifyDataResponse]


class Op:
    """one operation: the real coroutine as a task + its reference model."""

    def __init__(self, idx, kind, addr, handle, wdata):
        self.idx = idx
        self.kind = kind
        self.addr = addr
        self.handle = handle
        self.wdata = wdata
        self.task = None
        self.notified = []  # what the real notify callback received
        # model
        self.state = "pending"  # pending | ok | gatt | dropped
        self.by = None  # the message that decided it
        self.woken = False  # the waiting task has had a turn since the decision
        self.must_notify = []  # notify data that must have been delivered
        self.may_notify = []  # ... that may have been delivered (unspecified moments)
        self.order = []  # both, in arrival order: (item, required)

    def start(self, cli, loop):
        k, a, h = self.kind, self.addr, self.handle
        if k == K_READ:
            coro = cli.bluetooth_gatt_read(a, h)
        elif k == K_READ_DESC:
            coro = cli.bluetooth_gatt_read_descriptor(a, h)
        elif k == K_WRITE:
            coro = cli.bluetooth_gatt_write(a, h, self.wdata, True)
        elif k == K_WRITE_DESC:
            coro = cli.bluetooth_gatt_write_descriptor(a, h, self.wdata)
        elif k == K_NOTIFY:
            coro = cli.bluetooth_gatt_start_notify(a, h, self._on_notify)
        else:
            coro = cli.bluetooth_gatt_write(a, h, self.wdata, False)
        self.task = loop.create_task(coro)
        if k == K_WRITE_NORESP:
            self.state = "ok"

    def _on_notify(self, handle, data):
        self.notified.append((handle, data))

    # -- reference model: what one device message means for this operation
    def model_message(self, mt, maddr, mhandle, msg):
        if self.kind == K_NOTIFY and mt == M_DATA:
            if maddr == self.addr and mhandle == self.handle:
                item = (mhandle, msg.data)
                if self.state == "ok" and self.woken:
                    self.must_notify.append(item)
                elif self.state in ("pending", "ok") or not self.woken:
                    # before the subscription is confirmed / before the failed call was resumed: unspecified
                    self.may_notify.append(item)
            return
        if self.state != "pending":
            return
        if mt == M_CONN:
            if maddr == self.addr:
                self.state, self.by = "dropped", msg
            return
        if mt == M_ERR:
            if maddr == self.addr and mhandle == self.handle:
                self.state, self.by = "gatt", msg
            return
        if mt in (M_READ, M_WRITE, M_NOTIFY) and MSG_CLS[mt] is KIND_RESP[self.kind]:
            if maddr == self.addr and mhandle == self.handle:
                self.state, self.by = "ok", msg


def _expected_registrations(ops, S):
    """handler-table census implied by the model after every task has had its turn."""
    exp = {S[c]: 0 for c in MSG_CLS}
    timers = 0
    for op in ops:
        if op.state == "pending":
            exp[S[KIND_RESP[op.kind]]] += 1
            exp[S[pb.BluetoothGATTErrorResponse]] += 1
            exp[S[pb.BluetoothDeviceConnectionResponse]] += 1
            timers += 1
        if op.kind == K_NOTIFY and op.state in ("pending", "ok"):
            exp[S[pb.BluetoothGATTNotifyDataResponse]] += 1
    return exp, timers


def _census(world, ops, S, when):
    with NoTracing():
        return _census_nt(world, ops, S, when)


def _census_nt(world, ops, S, when):
    exp, timers = _expected_registrations(ops, S)
    for cls, n in exp.items():
        have = len(world.handlers_for(cls))
        if have != n:
            return track.fail(f"{when}: {have} callbacks registered for {cls.__name__}, the operations still pending account for {n}")
    extra = [c for c in world.conn._message_handlers if c not in exp and world.conn._message_handlers[c]]
    if extra:
        return track.fail(f"{when}: callbacks registered for unrelated types {[c.__name__ for c in extra]}")
    live = len(world.loop.live_timers())
    if live != timers:
        return track.fail(f"{when}: {live} live timers, the operations still pending account for {timers}")
    return True


def _check_done_flags(ops, when):
    with NoTracing():
        return _check_done_flags_nt(ops, when)


def _check_done_flags_nt(ops, when):
    for op in ops:
        if op.task.done() != (op.state != "pending"):
            return track.fail(f"{when}: operation {op.idx} ({KIND_NAMES[op.kind]}) done={op.task.done()} but the model says {op.state}")
    return True


def _check_outcome(op, world):
    t = op.task
    name = f"operation {op.idx} ({KIND_NAMES[op.kind]})"
    if op.state == "pending":
        if t.done():
            return track.fail(f"{name} finished although no message for its address/handle arrived")
        return True
    if not t.done():
        return track.fail(f"{name} still pending after the deciding message ({op.state})")
    if t.cancelled():
        return track.fail(f"{name} was cancelled")
    exc = t.exception()
    if op.state == "ok":
        if exc is not None:
            return track.fail(f"{name} raised {type(exc).__name__} instead of completing with its response")
        res = t.result()
        if op.kind in (K_READ, K_READ_DESC):
            if not isinstance(res, bytearray) or bytes(res) != op.by.data:
                return track.fail(f"{name} did not return the data of the FIRST response carrying its address and handle")
        elif op.kind in (K_WRITE, K_WRITE_DESC, K_WRITE_NORESP):
            if res is not None:
                return track.fail(f"{name} returned {res!r}")
        else:
            if not (isinstance(res, tuple) and len(res) == 2 and callable(res[0]) and callable(res[1])):
                return track.fail(f"{name} did not return (stop_notify, remove_callback)")
        return True
    if op.state == "gatt":
        if not isinstance(exc, BluetoothGATTAPIError):
            return track.fail(f"{name}: GATT error response for it arrived first, got {type(exc).__name__ if exc else 'a result'}")
        e = exc.error
        if e.address != op.addr or e.handle != op.handle or e.error != op.by.error:
            return track.fail(f"{name}: BluetoothGATTAPIError carries another message's values")
        return True
    if not isinstance(exc, BluetoothConnectionDroppedError):
        return track.fail(f"{name}: connection change for its address arrived first, got {type(exc).__name__ if exc else 'a result'}")
    return True


def _check_notifications(op):
    """delivered == must (+ optionally the unspecified ones), in order, each at most once."""
    got = list(op.notified)
    for h, d in got:
        if h != op.handle or not isinstance(d, bytearray):
            return track.fail(f"operation {op.idx}: notify callback called with a foreign handle / non-bytearray")
    # merge walk over the arrival-ordered union of must/may (kept in arrival order by `order`)
    seq = op.order
    gi = 0
    for item, required in seq:
        if gi < len(got) and bytes(got[gi][1]) == item[1] and got[gi][0] == item[0]:
            gi += 1
        elif required:
            return track.fail(f"operation {op.idx}: matching notify data was not delivered (or out of order)")
    if gi != len(got):
        return track.fail(f"operation {op.idx}: notify callback received data that no matching message carried (foreign address/handle or duplicate)")
    return True


def _build_message(S, mt, maddr, mhandle, err, data):
    cls = S[MSG_CLS[mt]]
    if mt == M_CONN:
        return cls(address=maddr, connected=False)
    if mt == M_ERR:
        return cls(address=maddr, handle=mhandle, error=err)
    if mt in (M_READ, M_DATA):
        return cls(address=maddr, handle=mhandle, data=data)
    return cls(address=maddr, handle=mhandle)


def _relevant_types(kinds):
    """message types at least one of the two operations listens to (others are dropped by the
    dispatch table before any Bluetooth code runs: C12's subject)"""
    rel = {M_ERR, M_CONN}
    for k in kinds:
        if KIND_RESP[k] is not None:
            rel.add(MSG_CLS.index(KIND_RESP[k]))
        if k == K_NOTIFY:
            rel.add(M_DATA)
    return sorted(rel)


def h16b_ops2(a1: int, h1: int, a2: int, h2: int,
              t0: int, ma0: int, mh0: int, e0: int, f0: bool,
              t1: int, ma1: int, mh1: int, e1: int,
              blob: bytes, fin: bool) -> bool:
    """
    pre: 0 <= a1 < A48 and 0 <= a2 < A48 and 0 <= ma0 < A48 and 0 <= ma1 < A48
    pre: 0 <= h1 < H32 and 0 <= h2 < H32 and 0 <= mh0 < H32 and 0 <= mh1 < H32
    pre: 0 <= e0 < 2**31 and 0 <= e1 < 2**31
    pre: 0 <= t0 and 0 <= t1
    pre: len(blob) == 10
    post: _
    """
    return _h16b(a1, h1, a2, h2, [(t0, ma0, mh0, e0, f0), (t1, ma1, mh1, e1, True)], blob, fin)


def h16b_ops3(a1: int, h1: int, a2: int, h2: int,
              t0: int, ma0: int, mh0: int, e0: int, f0: bool,
              t1: int, ma1: int, mh1: int, e1: int, f1: bool,
              t2: int, ma2: int, mh2: int, e2: int,
              blob: bytes, fin: bool) -> bool:
    """
    pre: 0 <= a1 < A48 and 0 <= a2 < A48 and 0 <= ma0 < A48 and 0 <= ma1 < A48 and 0 <= ma2 < A48
    pre: 0 <= h1 < H32 and 0 <= h2 < H32 and 0 <= mh0 < H32 and 0 <= mh1 < H32 and 0 <= mh2 < H32
    pre: 0 <= e0 < 2**31 and 0 <= e1 < 2**31 and 0 <= e2 < 2**31
    pre: 0 <= t0 and 0 <= t1 and 0 <= t2
    pre: len(blob) == 10
    post: _
    """
    return _h16b(a1, h1, a2, h2, [(t0, ma0, mh0, e0, f0), (t1, ma1, mh1, e1, f1), (t2, ma2, mh2, e2, True)], blob, fin)


def _h16b(a1, h1, a2, h2, msgs_in, blob, fin) -> bool:
    track.entered()
    pbstub.reset_registry()
    kinds = shard_ints("KINDS", "0,2")
    fixed = [shard_int("T0", -1), shard_int("T1", -1)]  # optional shard selectors: type of message 0 / 1
    rel = _relevant_types(kinds)
    world = ClientWorld(ordered_types=[S[c] for c in MSG_CLS], reverse=bool(shard_int("ORDER", 0)))
    try:
        with quiet_texts():
            loop, cli = world.loop, world.cli
            ops = [Op(1, kinds[0], a1, h1, blob[8:9]), Op(2, kinds[1], a2, h2, blob[9:10])]
            for op in ops:
                n0 = world.n_sent()
                op.start(cli, loop)
                loop.run_ready()
                sent = world.sent(n0)
                if len(sent) != 1 or type(sent[0][1]) is not S[KIND_REQ[op.kind]]:
                    return track.fail(f"operation {op.idx}: did not write exactly one {KIND_REQ[op.kind].__name__}")
                req = sent[0][1]
                if req.address != op.addr or req.handle != op.handle:
                    return track.fail(f"operation {op.idx}: request carries another address/handle")
            for op in ops:
                op.woken = True
            if _census(world, ops, S, "after starting") is not True:
                return False
            if _check_done_flags(ops, "after starting") is not True:
                return False

            n_sent0 = world.n_sent()
            for i, (t, maddr, mhandle, err, flush) in enumerate(msgs_in):
                if i < 2 and fixed[i] >= 0:
                    mt = fixed[i]
                else:
                    mt = rel[concretize(t, len(rel) - 1)]
                msg = _build_message(S, mt, maddr, mhandle, err, blob[2 * i: 2 * i + 2])
                for op in ops:
                    before = op.state
                    nm, ny = len(op.must_notify), len(op.may_notify)
                    op.model_message(mt, maddr, mhandle, msg)
                    if op.state != before:
                        op.woken = False
                    if len(op.must_notify) > nm:
                        op.order.append((op.must_notify[-1], True))
                    elif len(op.may_notify) > ny:
                        op.order.append((op.may_notify[-1], False))
                world.deliver(msg)
                last = i == len(msgs_in) - 1
                # a turn of the loop is only a choice when something is waiting to run
                if loop._ready and (last or flush):
                    loop.run_ready()
                if not loop._ready:
                    for op in ops:
                        op.woken = True
                    if _check_done_flags(ops, f"after message {i}") is not True:
                        return False
                    if _census(world, ops, S, f"after message {i}") is not True:
                        return False
                    if all(op.state != "pending" for op in ops) and not any(op.kind == K_NOTIFY and op.state == "ok" for op in ops):
                        break  # nothing of either operation is left that a further message could reach
            if track.reached():
                return False
            if world.n_sent() != n_sent0:
                return track.fail("a device message made the client write something")
            for op in ops:
                if _check_outcome(op, world) is not True:
                    return False
                if op.kind == K_NOTIFY and _check_notifications(op) is not True:
                    return False
            # endings: successful notify sessions are stopped; pending operations run into their timeout
            for op in ops:
                if op.kind == K_NOTIFY and op.state == "ok":
                    stop_notify, remove_callback = op.task.result()
                    if fin:
                        n0 = world.n_sent()
                        st = loop.create_task(stop_notify())
                        loop.run_ready()
                        if not st.done() or st.exception() is not None:
                            return track.fail("stop_notify() failed")
                        sent = world.sent(n0)
                        if len(sent) != 1 or type(sent[0][1]) is not S[pb.BluetoothGATTNotifyRequest]:
                            return track.fail("stop_notify() did not write one BluetoothGATTNotifyRequest")
                        r = sent[0][1]
                        if r.address != op.addr or r.handle != op.handle or r.enable is not False:
                            return track.fail("stop_notify() request carries other values than (address, handle, enable=False)")
                    else:
                        remove_callback()
                    op.state = "stopped"
            started = 0
            pend = [op for op in ops if op.state == "pending"]
            for op in sorted(pend, key=lambda o: KIND_TIMEOUT[o.kind]):
                loop.advance_to(started + KIND_TIMEOUT[op.kind])
                loop.run_ready()
                if not op.task.done() or not isinstance(op.task.exception(), TimeoutAPIError):
                    return track.fail(f"operation {op.idx}: no TimeoutAPIError at its timeout although nothing matched")
                if loop.time() != started + KIND_TIMEOUT[op.kind]:
                    return track.fail(f"operation {op.idx}: timeout at {loop.time()}")
                op.state = "timeout"
            left = world.handlers()
            if left:
                return track.fail(f"after every operation finished {len(left)} callbacks are still registered")
            if loop.live_timers():
                return track.fail("after every operation finished a timer is still armed")
            if loop.exc:
                return track.fail(f"the loop recorded an unhandled exception: {loop.exc[0].get('exception')!r}")
            return True
    finally:
        world.close()


# ----------------------------------------------------------------------------------------------
# H16c: bluetooth_device_connect that is not answered
# ----------------------------------------------------------------------------------------------
E_FOREIGN, E_OWN_UP, E_OWN_DOWN, E_NONE = 0, 1, 2, 3


def h16c_connect_timeout(addr: int, other: int, ev0: int, ev1: int, ev2: int, ev3: int,
                         c0: bool, mtu: int, err: int, has_cache: bool, caching: bool, atype: int) -> bool:
    """
    pre: 0 <= addr < A48 and 0 <= other < A48 and other != addr
    pre: 0 <= ev0 <= 3 and 0 <= ev1 <= 3 and 0 <= ev2 <= 3 and 0 <= ev3 <= 3
    pre: 0 <= mtu < H32 and 0 <= err < 2**31
    pre: -1 <= atype <= 2
    post: _
    """
    track.entered()
    pbstub.reset_registry()
    T, D = float(shard_int("T", 30)), float(shard_int("D", 20))
    npre, npost = shard_int("NPRE", 2), shard_int("NPOST", 2)
    world = ClientWorld()
    try:
        with quiet_texts():
            loop, cli = world.loop, world.cli
            Conn = S[pb.BluetoothDeviceConnectionResponse]
            Req = S[pb.BluetoothDeviceRequest]
            states = []
            address_type = None if atype < 0 else atype
            task = loop.create_task(cli.bluetooth_device_connect(
                addr, lambda c, m, e: states.append((c, m, e)), timeout=T, disconnect_timeout=D,
                feature_flags=(4 if caching else 0), has_cache=has_cache, address_type=address_type))
            loop.run_ready()
            sent = world.sent()
            if len(sent) != 1 or type(sent[0][1]) is not Req or sent[0][1].address != addr:
                return track.fail("connect did not write exactly one BluetoothDeviceRequest for the address")
            if sent[0][1].request_type != (4 if has_cache else (5 if caching else 0)):
                return track.fail("connect request type does not follow has_cache / REMOTE_CACHING")
            if task.done():
                return track.fail("connect finished without any device message")
            # --- before the timeout: only foreign-address traffic (own-address traffic ends the wait: not this harness)
            evs_pre = [ev0, ev1][:npre]
            for ev in evs_pre:
                if concretize(ev, 1) == 0:
                    world.deliver(Conn(address=other, connected=c0, mtu=mtu, error=err))
                    loop.run_ready()
                    if task.done():
                        return track.fail("a connection response for ANOTHER address ended bluetooth_device_connect")
                    if states:
                        return track.fail("a connection response for ANOTHER address reached the state callback")
            if world.n_sent() != 1:
                return track.fail("something was written before the timeout")
            # --- the timeout
            loop.advance_to(T)
            loop.run_ready()
            if loop.time() != T:
                return track.fail("clock")
            sent = world.sent(1)
            if len(sent) != 1 or type(sent[0][1]) is not Req:
                return track.fail(f"at the timeout {len(sent)} requests were written, expected exactly the disconnect")
            dreq = sent[0][1]
            if dreq.address != addr or dreq.request_type != 1 or sent[0][0] != T:
                return track.fail("the request written at the timeout is not DISCONNECT for the connecting address at t = timeout")
            if task.done():
                return track.fail("connect raised before the disconnect was answered / timed out")
            if len(world.handlers_for(Conn)) != 1:
                return track.fail(f"while waiting for the disconnect {len(world.handlers_for(Conn))} connection-response callbacks are registered (the connect subscription must be gone)")
            # --- waiting for the disconnect to be confirmed
            ended_by_reply = False
            evs_post = [ev2, ev3][:npost]
            for ev in evs_post:
                e = concretize(ev, 3)
                if e == E_NONE:
                    continue
                if e == E_FOREIGN:
                    world.deliver(Conn(address=other, connected=c0, mtu=mtu, error=err))
                elif e == E_OWN_UP:
                    world.deliver(Conn(address=addr, connected=True, mtu=mtu, error=err))
                else:
                    world.deliver(Conn(address=addr, connected=False, mtu=mtu, error=err))
                    ended_by_reply = True
                loop.run_ready()
                if states:
                    return track.fail("the state callback was called after the connect timed out")
                if ended_by_reply:
                    break
                if task.done():
                    return track.fail("connect ended by a message that is not the disconnect confirmation for its address")
            if track.reached():
                return False
            if not ended_by_reply:
                if task.done():
                    return track.fail("connect ended early")
                loop.advance_to(T + D)
                loop.run_ready()
                if loop.time() != T + D:
                    return track.fail("clock")
            if not task.done():
                return track.fail("connect still pending after the disconnect was confirmed / disconnect_timeout passed")
            exc = None if task.cancelled() else task.exception()
            if not isinstance(exc, TimeoutAPIError):
                return track.fail(f"connect ended with {type(exc).__name__ if exc else 'a result'} instead of TimeoutAPIError")
            if world.n_sent() != 2:
                return track.fail("more than connect + disconnect was written")
            if world.handlers():
                return track.fail("callbacks are still registered after the timed-out connect")
            if loop.live_timers():
                return track.fail("a timer is still armed after the timed-out connect")
            if states:
                return track.fail("state callback called although the device never answered for this address")
            if loop.exc:
                return track.fail(f"the loop recorded an unhandled exception: {loop.exc[0].get('exception')!r}")
            return True
    finally:
        world.close()


def h16c_connect_answered(addr: int, other: int, ev0: int, ev1: int, connected: bool, mtu: int, err: int,
                          c2: bool, later: int) -> bool:
    """
    pre: 0 <= addr < A48 and 0 <= other < A48 and other != addr
    pre: 0 <= ev0 <= 1 and 0 <= ev1 <= 1
    pre: 0 <= mtu < H32 and 0 <= err < 2**31
    pre: 0 <= later <= 2
    post: _
    """
    track.entered()
    pbstub.reset_registry()
    T, D = float(shard_int("T", 30)), float(shard_int("D", 20))
    world = ClientWorld()
    try:
        with quiet_texts():
            loop, cli = world.loop, world.cli
            Conn = S[pb.BluetoothDeviceConnectionResponse]
            states = []
            task = loop.create_task(cli.bluetooth_device_connect(
                addr, lambda c, m, e: states.append((c, m, e)), timeout=T, disconnect_timeout=D))
            loop.run_ready()
            # foreign traffic first (maybe in the same turn as the answer), then the answer
            same_turn = concretize(ev1, 1) == 1
            if concretize(ev0, 1) == 1:
                world.deliver(Conn(address=other, connected=c2, mtu=7, error=3))
                if not same_turn:
                    loop.run_ready()
                    if task.done() or states:
                        return track.fail("a connection response for ANOTHER address ended the connect / reached the state callback")
            world.deliver(Conn(address=addr, connected=connected, mtu=mtu, error=err))
            loop.run_ready()
            if track.reached():
                return False
            if not task.done() or task.cancelled() or task.exception() is not None:
                return track.fail("connect did not return after the connection response for its address")
            if len(states) != 1 or not (same(states[0][0], connected) and states[0][1] == mtu and states[0][2] == err):
                return track.fail("state callback not called exactly once with (connected, mtu, error) of the answer")
            if world.n_sent() != 1:
                return track.fail("more than the connect request was written")
            if loop.live_timers():
                return track.fail("the connect timeout is still armed after connect returned")
            unsub = task.result()
            # the subscription stays until the returned unsubscribe is called: later changes are reported
            lt = concretize(later, 2)
            if lt == 1:
                world.deliver(Conn(address=addr, connected=c2, mtu=1, error=2))
                if len(states) != 2 or not same(states[1][0], c2):
                    return track.fail("a later connection change of the address was not reported exactly once")
            elif lt == 2:
                world.deliver(Conn(address=other, connected=c2, mtu=1, error=2))
                if len(states) != 1:
                    return track.fail("a later connection change of ANOTHER address was reported")
            unsub()
            world.deliver(Conn(address=addr, connected=False, mtu=0, error=0))
            if len(states) != (2 if lt == 1 else 1):
                return track.fail("state callback called after unsubscribe")
            if world.handlers():
                return track.fail("callbacks are still registered after unsubscribe")
            return True
    finally:
        world.close()


# ----------------------------------------------------------------------------------------------
KIND_PAIRS_ALL = [(a, b) for a in range(5) for b in range(a, 5)]
MSG_SHORT = ["read response", "write response", "notify response", "GATT error", "connection response", "notify data"]


def _scenario_shards(pairs, nmsg, order_of, cond):
    out = []
    for idx, p in enumerate(pairs):
        env = {"KINDS": f"{p[0]},{p[1]}"}
        what = f"{KIND_NAMES[p[0]]} || {KIND_NAMES[p[1]]}"
        if nmsg == 2:
            env["ORDER"] = order_of(idx)
            out.append({"fn": "h16b_ops2", "env": env, "cond_timeout": cond,
                        "desc": f"{what}, 2 device messages, handler order {'reverse ' if env['ORDER'] else ''}registration"})
        else:
            rel = _relevant_types(p)
            for t0 in rel:
                for t1 in rel:
                    e = dict(env, T0=t0, T1=t1, ORDER=order_of(idx))
                    out.append({"fn": "h16b_ops3", "env": e, "cond_timeout": cond,
                                "desc": f"{what}, 3 device messages starting with {MSG_SHORT[t0]}, {MSG_SHORT[t1]}"})
    return out


def shards(tier: str) -> list:
    out = [
        {"fn": "h16a_handle_message", "cond_timeout": 120, "desc": "on_bluetooth_handle_message, 5 message types, 48-bit addresses, 32-bit handles"},
        {"fn": "h16a_message_types", "cond_timeout": 180, "desc": "on_bluetooth_message_types, every subset of 5 types x 5 message types"},
        {"fn": "h16a_notify_data", "cond_timeout": 120, "desc": "on_bluetooth_gatt_notify_data_response"},
        {"fn": "h16a_connection_response", "cond_timeout": 120, "desc": "on_bluetooth_device_connection_response, future pending/resolved/failed"},
    ]
    if tier == "quick":
        out += _scenario_shards(KIND_PAIRS_ALL, 2, lambda i: i % 2, 500)
        out += _scenario_shards([(0, 2)], 3, lambda i: 1, 600)
        tds = [(30, 20)]
    else:
        out += _scenario_shards(KIND_PAIRS_ALL + [(0, 5), (4, 5), (5, 5)], 2, lambda i: 0, 600)
        out += _scenario_shards(KIND_PAIRS_ALL, 2, lambda i: 1, 600)
        # heaviest shard (notify || notify starting with notify response, notify data): ~2000 paths
        out += _scenario_shards([(0, 0), (0, 2), (0, 4), (1, 3), (2, 2), (2, 4), (3, 4), (4, 4)], 3, lambda i: i % 2, 1500)
        tds = [(30, 20), (5, 50), (10, 10)]
    for t, d in tds:
        out.append({"fn": "h16c_connect_timeout", "env": {"T": t, "D": d, "NPRE": 2, "NPOST": 2}, "cond_timeout": 500,
                    "desc": f"bluetooth_device_connect unanswered, timeout={t}, disconnect_timeout={d}"})
        out.append({"fn": "h16c_connect_answered", "env": {"T": t, "D": d}, "cond_timeout": 300,
                    "desc": "bluetooth_device_connect answered for its address (foreign traffic before / same turn)"})
    return out


BOUNDS = {
    "quick": "filters: addresses < 2^48, handles < 2^32 fully symbolic. Scenario: 2 concurrent operations (all 15 unordered pairs of the 5 awaiting kinds) x 2 device messages, and read || write x 3 messages; message type = any type one of the two operations listens to (its response type, GATT error, connection response, notify data), address/handle/error/data symbolic, each message delivered in the same loop turn as the previous one or in a later turn; handlers of one type run in registration order or reverse (alternating per shard); connect: timeout 30 / disconnect_timeout 20, <= 2 foreign messages before and <= 2 messages after the timeout",
    "thorough": "as quick; 2 messages: all pairs in both handler orders plus write-without-response pairs; 3 messages for 8 pairs; three (timeout, disconnect_timeout) pairs",
}
OUTSIDE = [
    "more than 2 concurrent operations, more than 3 device messages (the per-message handling depends only on which operations are still unresolved / not yet resumed; every such state is reached within 2 messages)",
    "message types nobody listens to (dropped by the dispatch table: C12)",
    "iteration orders of the per-type handler set other than registration order and its reverse",
    "caller cancellation of an operation (not in the statement's quantifier)",
    "bluetooth_gatt_get_services / pair / unpair / clear_cache (same filters, covered by H16a only)",
    "texts of error messages (formatting helpers replaced, see assumptions)",
    "timeouts other than the concrete values listed",
]
ASSUMPTIONS = [
    "connection put into CONNECTED directly with a recording frame helper (connect phase is C05-C09's subject); real APIConnection.process_packet / handler table / send_messages_await_response_complex run",
    "pbstub doubles for the Bluetooth messages (named fields, injective token codec)",
    "to_human_readable_address / to_human_readable_gatt_error and the message text of BluetoothGATTAPIError are replaced by constants while a path runs (they format symbolic ints); exception classes and the .error payload are checked",
    "SimLoop: real asyncio scheduler on a virtual clock",
    "notify data that matches a start_notify call before its confirmation arrived, or between its failure and the resumption of the caller, may or may not be delivered (unspecified); at most once",
]
# repo functions entered by shards other than the two sampled per harness function for the evidence file
ALSO_ENCODED = [
    "client.py:APIClient._raise_for_ble_connection_change", "client.py:APIClient.bluetooth_gatt_read_descriptor",
    "client.py:APIClient.bluetooth_gatt_write_descriptor", "client.py:APIClient.bluetooth_gatt_start_notify",
    "client.py:APIClient.bluetooth_gatt_start_notify.<locals>.stop_notify", "model.py:APIModelBase.from_pb",
]
EXPLANATION = ("C16: oracle = independent per-operation reference model (first message of its response type with its address AND handle "
               "completes it; GATT error for address+handle => BluetoothGATTAPIError; connection response for address => "
               "BluetoothConnectionDroppedError; nothing else affects it) compared with task outcomes after every loop turn, plus a census "
               "of the handler table and the timer heap against the operations still pending.")
