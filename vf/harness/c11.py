"""C11 -- request-response calls get exactly their responses and leave nothing behind."""
from __future__ import annotations

import asyncio

from aioesphomeapi import api_pb2 as pb
from aioesphomeapi.connection import ConnectionState
from aioesphomeapi.core import APIConnectionError, SocketClosedAPIError, TimeoutAPIError

from vf import pbstub, track
from vf.harness.common import concretize, connected_conn, same, shard_int
from vf.simloop import SimLoop

PROPERTY = "C11"

A = pbstub.make_stub(pb.SensorStateResponse)  # wire id 25
B = pbstub.make_stub(pb.SwitchStateResponse)  # wire id 26
REQ = pb.SubscribeStatesRequest()

# events
MSG_A, MSG_B, DRAIN, TIMER, CANCEL0, CANCEL1, CLOSE, SPAWN1, TURN, FAILW = range(10)
NAMES = ["MSG_A", "MSG_B", "DRAIN", "TIMER", "CANCEL0", "CANCEL1", "CLOSE", "SPAWN1", "TURN", "FAILW"]
NE = len(NAMES)
CFG = shard_int("CFG", 0)
SH0 = shard_int("SH0", 0)
SH1 = shard_int("SH1", -1)
SH1LO = shard_int("SH1LO", 0)
SH1HI = shard_int("SH1HI", 99)
# per-call configuration: (types, accept kind, stop kind, timeout); kinds: 0 = None, 1 = key == parameter
CONFIGS = [
    # call0, call1
    (((A,), 0, 0, 10.0), ((A,), 0, 0, 7.0)),
    (((A,), 1, 1, 10.0), ((A, B), 0, 1, 10.0)),
    (((A, B), 1, 0, 5.0), ((B,), 1, 1, 10.0)),
    (((A,), 0, 1, 10.0), ((A,), 1, 0, 10.0)),
]


class _Call:
    def __init__(self, idx, cfg, pa, ps):
        self.idx = idx
        self.types, self.ak, self.sk, self.timeout = cfg
        self.pa, self.ps = pa, ps
        self.task = None
        self.t_send = None
        self.t_end = None
        self.wrote = 0
        # reference model
        self.model_resp = []
        self.model_done = None  # None | "ok" | "timeout" | "closed" | "cancelled"
        self.model_t = None

    def accept(self, m) -> bool:
        return True if self.ak == 0 else m.key == self.pa

    def stop(self, m) -> bool:
        return True if self.sk == 0 else m.key == self.ps


def _run(events: list, keys: list, pa0: int, ps0: int, pa1: int, ps1: int) -> bool:
    track.entered()
    loop = SimLoop().activate()
    try:
        with pbstub.install(pb.SensorStateResponse, pb.SwitchStateResponse):
            conn, helper, stops = connected_conn(loop)
            base_handlers = {k: set(v) for k, v in conn._message_handlers.items()}
            cfg0, cfg1 = CONFIGS[CFG]
            calls = [_Call(0, cfg0, pa0, ps0), _Call(1, cfg1, pa1, ps1)]
            closed_exc = None
            trace = []

            def spawn(c: _Call):
                acc = None if c.ak == 0 else (lambda m, _c=c: m.key == _c.pa)
                stp = None if c.sk == 0 else (lambda m, _c=c: m.key == _c.ps)
                c.t_send = loop.time()
                nw = len(helper.writes)

                async def call(_c=c):
                    try:
                        return await conn.send_messages_await_response_complex((REQ,), acc, stp, _c.types, _c.timeout)
                    finally:
                        _c.t_end = loop.time()

                c.task = asyncio.Task(call(), loop=loop, eager_start=True)
                c.wrote = len(helper.writes) - nw
                if helper.fail is not None:
                    c.model_done = "writefail"
                elif conn.connection_state is ConnectionState.CLOSED:
                    c.model_done = "refused"

            def model_deliver(cls, m):
                for c in calls:
                    if c.task is None or c.model_done is not None or cls not in c.types:
                        continue
                    if c.accept(m):
                        c.model_resp.append(m)
                    if c.stop(m):
                        c.model_done = "ok"
                        c.model_t = loop.time()

            def model_timers():
                now = loop.time()
                for c in calls:
                    if c.task is not None and c.model_done is None and now >= c.t_send + c.timeout:
                        c.model_done = "timeout"
                        c.model_t = c.t_send + c.timeout

            spawn(calls[0])
            ki = 0
            for _i, a in enumerate(events):
                if _PROBE is not None:
                    _PROBE.append(_i)
                ev = concretize(a, NE - 1)
                trace.append(NAMES[ev])
                if ev in (MSG_A, MSG_B):
                    if conn.connection_state is ConnectionState.CLOSED:
                        return track.pruned()
                    cls = A if ev == MSG_A else B
                    m = cls(key=keys[ki])
                    ki += 1
                    model_deliver(cls, m)
                    conn.process_packet(25 if ev == MSG_A else 26, m.SerializeToString())
                elif ev == DRAIN:
                    if not loop._ready:
                        return track.pruned()
                    loop.run_ready()
                elif ev == TURN:
                    if not loop._ready:
                        return track.pruned()
                    loop.turn()
                elif ev == TIMER:
                    loop.run_ready()
                    if loop.next_timer() is None:
                        return track.pruned()
                    loop.turn()
                    model_timers()
                    loop.run_ready()
                elif ev in (CANCEL0, CANCEL1):
                    c = calls[ev - CANCEL0]
                    if c.task is None or c.task.done():
                        return track.pruned()
                    c.task.cancel()
                    if c.model_done is None:
                        c.model_done = "cancelled"
                    else:
                        c.model_done = c.model_done + "|cancelled"  # raced with its completion: either outcome
                elif ev == CLOSE:
                    if conn.connection_state is ConnectionState.CLOSED:
                        return track.pruned()
                    closed_exc = SocketClosedAPIError("peer went away")
                    for c in calls:
                        if c.task is not None and c.model_done is None:
                            c.model_done = "closed"
                    conn.report_fatal_error(closed_exc)
                elif ev == SPAWN1:
                    if calls[1].task is not None:
                        return track.pruned()
                    was_open = conn.connection_state is not ConnectionState.CLOSED
                    spawn(calls[1])
                    if helper.fail is not None and was_open:
                        # the failed write is a fatal error of the connection: every other pending call ends with it
                        for c in calls:
                            if c.task is not None and c.model_done is None:
                                c.model_done = "closed"
                        closed_exc = SocketClosedAPIError("write failed")
                elif ev == FAILW:
                    if helper.fail is not None or calls[1].task is not None or conn.connection_state is ConnectionState.CLOSED:
                        return track.pruned()
                    helper.fail = OSError("write failed")
            loop.run_ready()
            if track.reached():
                return False
            # ---- compare every call with its model
            for c in calls:
                if c.task is None:
                    continue
                md = c.model_done
                if md == "refused" or md == "writefail":
                    if not c.task.done() or c.task.cancelled() or not isinstance(c.task.exception(), APIConnectionError) or c.wrote:
                        return track.fail(f"call {c.idx} {'whose request could not be written' if md == 'writefail' else 'on a closed connection'} did not fail cleanly with a connection error; trace={trace}")
                    continue
                if c.wrote != 1:
                    return track.fail(f"call {c.idx} did not write its request exactly once at call time; trace={trace}")
                if md is None:
                    if c.task.done():
                        return track.fail(f"call {c.idx} ended although neither its stop message, its timeout nor a close occurred; trace={trace}")
                    continue
                if not c.task.done():
                    return track.fail(f"call {c.idx} still pending although the model says {md}; trace={trace}")
                alts = md.split("|")
                got = None
                if c.task.cancelled():
                    got = "cancelled"
                else:
                    exc = c.task.exception()
                    if exc is None:
                        got = "ok"
                    elif isinstance(exc, TimeoutAPIError):
                        got = "timeout"
                    elif isinstance(exc, APIConnectionError):
                        got = "closed"
                    else:
                        return track.fail(f"call {c.idx} raised {type(exc).__name__}; trace={trace}")
                if got not in alts:
                    return track.fail(f"call {c.idx} ended '{got}', model says '{md}'; trace={trace}")
                if got == "ok":
                    res = c.task.result()
                    if len(res) != len(c.model_resp):
                        return track.fail(f"call {c.idx} returned {len(res)} messages, model {len(c.model_resp)}; trace={trace}")
                    for x, y in zip(res, c.model_resp):
                        if type(x) is not type(y) or not same(x.key, y.key):
                            return track.fail(f"call {c.idx} returned a different message sequence; trace={trace}")
                if got == "closed" and closed_exc is not None and type(c.task.exception()) is not type(closed_exc):
                    return track.fail(f"call {c.idx} failed with {type(c.task.exception()).__name__}, the connection's error is {type(closed_exc).__name__}; trace={trace}")
            # ---- nothing left behind by finished calls
            pending = [c for c in calls if c.task is not None and not c.task.done()]
            if not pending:
                for k, v in conn._message_handlers.items():
                    if set(v) != base_handlers.get(k, set()):
                        return track.fail(f"a handler for {getattr(k, '__name__', k)} is still registered after every call ended; trace={trace}")
                if conn._read_exception_futures:
                    return track.fail(f"a waiter is still registered after every call ended; trace={trace}")
                if loop.live_timers():
                    return track.fail(f"a timer is still armed after every call ended; trace={trace}")
            else:
                n_wait = len(conn._read_exception_futures)
                if n_wait != len(pending):
                    return track.fail(f"{n_wait} waiters registered for {len(pending)} pending calls; trace={trace}")
                if len(loop.live_timers()) != len(pending):
                    return track.fail(f"{len(loop.live_timers())} timers armed for {len(pending)} pending calls; trace={trace}")
            # timeout instants are exact
            for c in calls:
                if c.task is not None and c.task.done() and not c.task.cancelled() and isinstance(c.task.exception(), TimeoutAPIError):
                    if c.t_end != c.t_send + c.timeout:
                        return track.fail(f"call {c.idx} timed out at {c.t_end}, not exactly at send time + timeout = {c.t_send + c.timeout}; trace={trace}")
            return True
    finally:
        loop.shutdown()


_PROBE = None  # set by shards() to find out natively which leading event pairs are enabled at all


def _pair_enabled(cfg: int, e0: int, e1: int) -> bool:
    global CFG, _PROBE
    old = CFG
    CFG = cfg
    _PROBE = []
    try:
        _run([e0, e1, DRAIN], [1, 1, 1], 1, 1, 1, 1)
        return max(_PROBE, default=-1) >= 2
    finally:
        _PROBE = None
        CFG = old


def h11_4(e0: int, e1: int, e2: int, e3: int, k0: int, k1: int, k2: int, k3: int, pa0: int, ps0: int, pa1: int, ps1: int) -> bool:
    """
    pre: e0 == SH0
    pre: SH1LO <= e1 < SH1HI
    pre: 0 <= e1 < NE and 0 <= e2 < NE and 0 <= e3 < NE
    pre: 0 <= k0 < 4 and 0 <= k1 < 4 and 0 <= k2 < 4 and 0 <= k3 < 4
    pre: 0 <= pa0 < 4 and 0 <= ps0 < 4 and 0 <= pa1 < 4 and 0 <= ps1 < 4
    post: _
    """
    return _run([e0, e1, e2, e3], [k0, k1, k2, k3], pa0, ps0, pa1, ps1)


def h11_5(e0: int, e1: int, e2: int, e3: int, e4: int, k0: int, k1: int, k2: int, k3: int, k4: int, pa0: int, ps0: int, pa1: int, ps1: int) -> bool:
    """
    pre: e0 == SH0
    pre: SH1 < 0 or e1 == SH1
    pre: 0 <= e1 < NE and 0 <= e2 < NE and 0 <= e3 < NE and 0 <= e4 < NE
    pre: 0 <= k0 < 4 and 0 <= k1 < 4 and 0 <= k2 < 4 and 0 <= k3 < 4 and 0 <= k4 < 4
    pre: 0 <= pa0 < 4 and 0 <= ps0 < 4 and 0 <= pa1 < 4 and 0 <= ps1 < 4
    post: _
    """
    return _run([e0, e1, e2, e3, e4], [k0, k1, k2, k3, k4], pa0, ps0, pa1, ps1)


def shards(tier: str) -> list:
    out = []
    firsts = [MSG_A, MSG_B, TIMER, CANCEL0, CLOSE, SPAWN1]
    for cfg in range(len(CONFIGS)):
        for ev in firsts:
            if tier == "quick":
                for lo, hi in ((0, 3), (3, 6), (6, NE)):
                    if not any(_pair_enabled(cfg, ev, e1) for e1 in range(lo, hi)):
                        continue  # no second event of this slice is enabled after the first
                    out.append({"fn": "h11_4", "env": {"CFG": cfg, "SH0": ev, "SH1LO": lo, "SH1HI": hi}, "cond_timeout": 600, "path_timeout": 60,
                                "desc": f"predicate/type configuration {cfg}, first event {NAMES[ev]}, second in [{lo},{hi}), then 2 symbolic events; symbolic message keys and predicate parameters"})
            else:
                for ev1 in range(NE):
                    if not _pair_enabled(cfg, ev, ev1):
                        continue  # the second event is not enabled after the first: nothing to explore
                    out.append({"fn": "h11_5", "env": {"CFG": cfg, "SH0": ev, "SH1": ev1}, "cond_timeout": 1500, "path_timeout": 60,
                                "desc": f"predicate/type configuration {cfg}, events {NAMES[ev]}, {NAMES[ev1]}, then 3 symbolic events; symbolic message keys and predicate parameters"})
    return out


BOUNDS = {"quick": "2 calls (second started at a symbolic point), 4 predicate/type configurations (None / field-equals-symbolic-value; same or different response types; timeouts 5/7/10 s), 4 events from {message A, message B, loop turn, drain, next timer, cancel caller 0/1, connection close, start second call}; message keys and predicate parameters symbolic in [0, 4)",
          "thorough": "same with 5 events"}
OUTSIDE = ["more than 2 concurrent calls / more than 2 response types", "sequences longer than the bound"]
ASSUMPTIONS = ["pbstub doubles carry symbolic field values through the real process_packet dispatch", "SimLoop virtual time", "the close is reported through report_fatal_error with a SocketClosedAPIError, as the frame helper does",
               "a cancellation racing the call's own completion in the same turn may end either way"]
EXPLANATION = "C11: each call's outcome (result list, timeout, connection error, cancellation) is compared with an independent reference model; after every call ended no handler, waiter or timer remains."
