"""C06 -- sessions only with a compatible, correctly named, authenticated device."""
from __future__ import annotations

from typing import Optional

from aioesphomeapi import api_pb2 as pb
from aioesphomeapi.core import APIConnectionError, BadNameAPIError, InvalidAuthAPIError

from vf import pbstub, scen, track
from vf.harness.common import concretize, shard_int
from vf.scen import CLOSED, CONNECTED, World

PROPERTY = "C06"
NEEDS_NOISE_PATCHES = True

HelloStub = pbstub.make_stub(pb.HelloResponse)
ConnectStub = pbstub.make_stub(pb.ConnectResponse)
ORDER = shard_int("ORDER", 0)  # 0: hello+connect in one chunk; 1: hello, loop turn, connect; 2: connect first, then hello; 3: two chunks same turn
LOGIN = shard_int("LOGIN", 1)
PW = shard_int("PW", 0)
NOISE = shard_int("NOISE", 0)
EXPN = shard_int("EXPN", 0)  # 1: no expected name configured
BADPW = shard_int("BADPW", 0)  # 1: the device flags the password invalid
NLEN = shard_int("NLEN", 2)  # bound on the length of the device name / expected name
TAIL = shard_int("TAIL", 0)  # what follows the responses at once: 0 nothing, 1 a DisconnectRequest in the same chunk, 2 EOF in the same loop turn
ORDER_NAMES = ["hello+connect in one chunk", "hello, loop turn, connect", "connect before hello", "hello and connect as two chunks in one turn"]


def _noise_session(w: World):
    """complete a real noise handshake against the independent responder (concrete, untraced crypto);
    returns a function that encrypts one (type, payload) as the device would, or None if the helper
    closed (never here: the noise hello carries no name)."""
    from vf import noise_h as NH
    from vf import noise_ref as NR
    from vf.track import NoTracing

    tr = w.transport
    with NoTracing():
        dev = NR.Device(NH.PSKS[0], None)
        hello, hs = dev.accept(tr.written())
    w.feed(hello + hs)
    w.loop.run_ready()
    if tr.closing:
        return None

    def enc(tid, payload):
        with NoTracing():
            return dev.data_frame(tid, bytes(payload))

    return enc


def h06(major: int, minor: int, name: str, expected: Optional[str], invalid_password: bool) -> bool:
    """
    pre: 0 <= major < 2**32 and 0 <= minor < 2**32
    pre: major <= 2 or minor < 10
    pre: len(name) <= NLEN
    pre: expected is None or 1 <= len(expected) <= NLEN
    pre: (expected is None) == (EXPN == 1)
    pre: invalid_password == (BADPW == 1)
    post: _
    """
    track.entered()
    login = LOGIN == 1
    with pbstub.install(pb.HelloResponse, pb.ConnectResponse):
        w = World(expected_name=expected, password="pw" if PW else None, noise_psk=scen_psk() if NOISE else None)
        try:
            conn = w.new_connection()
            w.connect_mode = "ok"

            async def full():
                await conn.start_connection()
                await conn.finish_connection(login=login)

            t = w.task(full())
            w.loop.run_ready()
            enc = None
            if NOISE:
                enc = _noise_session(w)
                if enc is None:
                    return True  # name rejected at the noise hello already (C03/C04 territory)
            hello = HelloStub(api_version_major=major, api_version_minor=minor, name=name, server_info="s")
            connect = ConnectStub(invalid_password=invalid_password)

            def fr(tid, stub):
                payload = stub.SerializeToString() if not isinstance(stub, bytes) else stub
                if enc is not None:
                    return enc(tid, payload)
                return scen.frame_raw(tid, payload)

            fh = fr(2, hello)
            fc = fr(4, connect)
            hello_before_end = True
            tail = b""
            if TAIL == 1:
                tail = fr(5, pb.DisconnectRequest().SerializeToString())
            if ORDER == 0:
                w.feed(fh + (fc if login else b"") + tail)
                if TAIL == 2:
                    w.transport.feed_eof()
            elif ORDER == 1:
                w.feed(fh)
                w.loop.run_ready()
                if login:
                    w.feed(fc)
            elif ORDER == 3:
                w.feed(fh)
                if login:
                    w.feed(fc)
            else:
                if not login:
                    return True
                w.feed(fc)
                w.loop.run_ready()
                hello_before_end = False
                w.feed(fh)
            w.loop.run_ready()
            if not t.done():
                # the device said nothing decisive (e.g. wrong order): time out
                w.loop.run_until_done(t)
            if track.reached():
                return False
            kind, val = scen.outcome(t)
            version_ok = major <= 2
            name_ok = expected is None or name == expected or name == ""
            auth_ok = (not login) or (not invalid_password)
            good = version_ok and name_ok and auth_ok and hello_before_end
            if TAIL and good:
                # the device closes right behind its (acceptable) answers: whether the connect call still
                # reports success is not specified; only the rejecting cases are judged
                return True
            if kind == "ok":
                if not good:
                    why = []
                    if not hello_before_end:
                        why.append("no HelloResponse had been received")
                    if not version_ok:
                        why.append(f"major version {major} unsupported")
                    if not name_ok:
                        why.append(f"name {name!r} != expected {expected!r}")
                    if not auth_ok:
                        why.append("password flagged invalid")
                    return track.fail("connect succeeded although " + ", ".join(why))
                if conn.connection_state is not CONNECTED or not conn.is_connected:
                    return track.fail("connect returned but the connection is not CONNECTED")
                av = conn.api_version
                if av is None or av.major != major or av.minor != minor:
                    return track.fail("negotiated api_version differs from the HelloResponse")
                if w.stops:
                    return track.fail("stop callback invoked on a successful connect")
                return True
            if kind != "exc":
                return track.fail(f"connect ended {kind}")
            exc = val
            if good:
                return track.fail(f"connect failed with {type(exc).__name__} although the device is compatible, correctly named and authenticated")
            if not isinstance(exc, APIConnectionError):
                return track.fail(f"connect raised {type(exc).__name__}, not a connection error")
            if hello_before_end:
                ok = False
                if not version_ok and "ncompatible" in _msg(exc):
                    ok = True
                if not name_ok and isinstance(exc, BadNameAPIError) and exc.received_name == name:
                    ok = True
                if not auth_ok and isinstance(exc, InvalidAuthAPIError):
                    ok = True
                if not ok:
                    return track.fail(f"connect failed with {type(exc).__name__}, not the specific error for the failed condition(s) "
                                      f"(version_ok={version_ok}, name_ok={name_ok}, auth_ok={auth_ok})")
            if conn.connection_state is not CLOSED:
                return track.fail("failed connect left the connection not closed")
            if w.stops:
                return track.fail("stop callback invoked although the session was never established")
            return True
        finally:
            w.close()


def _msg(exc):
    """the exception's message without str(exc) (a C slot that would realise a symbolic message)."""
    a = exc.args
    return a[0] if a and isinstance(a[0], str) else ""


def scen_psk() -> str:
    from vf import noise_h as NH

    return NH.PSK_B64[0]


def shards(tier: str) -> list:
    out = []
    for noise in (0, 1):
        for order in (0, 1, 2, 3):
            for login in (1, 0):
                if order in (2, 3) and not login:
                    continue
                for pw in ((0,) if tier == "quick" else (0, 1)):
                    if noise and order in (1, 3) and tier == "quick":
                        continue
                    for expn in (0, 1):
                        for badpw in ((0, 1) if login else (0,)):
                            out.append({"fn": "h06", "env": {"ORDER": order, "LOGIN": login, "PW": pw, "NOISE": noise, "EXPN": expn, "BADPW": badpw},
                                        "cond_timeout": 600, "path_timeout": 60,
                                        "desc": f"{'noise' if noise else 'plaintext'}, {ORDER_NAMES[order]}, login={'on' if login else 'off'}, password {'set' if pw else 'unset'}, "
                                                f"expected name {'unset' if expn else 'set'}, password verdict {'invalid' if badpw else 'ok'}; symbolic versions and names"})
    if tier != "quick":
        for expn in (0, 1):
            for badpw in (0, 1):
                out.append({"fn": "h06", "env": {"ORDER": 0, "LOGIN": 1, "PW": 0, "NOISE": 0, "EXPN": expn, "BADPW": badpw, "NLEN": 3},
                            "cond_timeout": 1500, "path_timeout": 60,
                            "desc": f"plaintext, hello+connect in one chunk, names of up to 3 characters, expected name {'unset' if expn else 'set'}, password verdict {'invalid' if badpw else 'ok'}"})
    # the device closes right behind its answers (DisconnectRequest in the same chunk / EOF in the same turn):
    # a rejected connect must still report the specific error
    for noise in (0, 1):
        for tail in (1, 2):
            for expn in (0, 1):
                for badpw in (0, 1):
                    out.append({"fn": "h06", "env": {"ORDER": 0, "LOGIN": 1, "PW": 0, "NOISE": noise, "EXPN": expn, "BADPW": badpw, "TAIL": tail},
                                "cond_timeout": 600, "path_timeout": 60,
                                "desc": f"{'noise' if noise else 'plaintext'}, hello+connect in one chunk followed at once by {'a DisconnectRequest' if tail == 1 else 'EOF'}, "
                                        f"expected name {'unset' if expn else 'set'}, password verdict {'invalid' if badpw else 'ok'}"})
    return out


BOUNDS = {"quick": "major in [0, 2^32), minor in [0, 2^32) for supported majors and [0, 10) for unsupported ones (there the minor only enters the error text, whose decimal rendering forks per digit count); device name and expected name of length <= 2 (any characters); password verdict symbolic; 4 response orders/chunkings; login on/off; plaintext and noise",
          "thorough": "adds password set/unset, all orders on noise, names of up to 3 characters"}
OUTSIDE = ["names longer than 2 characters", "protobuf decoding of the responses (doubles carry the symbolic field values through the real dispatch path)", "noise keys other than the fixed test key"]
ASSUMPTIONS = ["pbstub doubles for HelloResponse/ConnectResponse", "SimLoop/SimTransport", "empty device name with an expected name configured is accepted either way (the statement does not cover it)",
               "when several conditions fail, any of the corresponding specific errors is accepted"]
EXPLANATION = "C06: real start/finish with symbolic hello/connect responses; success iff compatible, correctly named, authenticated and the hello had been answered; otherwise the specific error, CLOSED, no stop callback."
