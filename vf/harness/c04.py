"""C04 -- the encrypted transport fails closed with a specific error; no forged delivery."""
from __future__ import annotations

from typing import Optional

from aioesphomeapi._frame_helper import noise as N
from aioesphomeapi._frame_helper.noise import APINoiseFrameHelper
from aioesphomeapi._frame_helper.plain_text import APIPlaintextFrameHelper
from aioesphomeapi.core import (
    BadNameAPIError,
    HandshakeAPIError,
    InvalidEncryptionKeyAPIError,
    ProtocolAPIError,
    RequiresEncryptionAPIError,
)

from vf import noise_h as H
from vf import noise_ref as NR
from vf import refcodec as R
from vf import track
from vf.harness.common import RecConn, RecTransport, base_loop, concretize, shard, shard_int, shard_ints
from vf.track import NoTracing

PROPERTY = "C04"
NEEDS_NOISE_PATCHES = True

LISTED = (InvalidEncryptionKeyAPIError, BadNameAPIError, HandshakeAPIError, ProtocolAPIError, RequiresEncryptionAPIError)
MAC_FAILURE = b"Handshake MAC failure"
SIG_TRUNC_HS = "C04/handshake-frame-truncated/unspecific-error-class"


def _closed_ok(h, cn, tr) -> Optional[str]:
    if not tr.closed:
        return "transport not closed after the deviation"
    if h._state != N.NOISE_STATE_CLOSED:
        return "helper state is not CLOSED after the deviation"
    return None


def _ready_carries(h, was_pending: bool, cls) -> Optional[str]:
    """a readiness wait that was pending receives the same error class."""
    if not was_pending:
        return None
    if not h.ready_future.done():
        return "pending ready_future was not resolved by the failure"
    exc = h.ready_future.exception()
    if exc is None or not isinstance(exc, cls):
        return f"ready_future carries {type(exc).__name__}, not the reported error class"
    return None


def _handshake_only(e) -> bool:
    return isinstance(e, HandshakeAPIError) and not isinstance(e, InvalidEncryptionKeyAPIError)


# ------------------------------------------------------------------------------------------------
# H04a  data-phase deviations, ideal AEAD, inductive on the inbound nonce
# ------------------------------------------------------------------------------------------------

def h04a_data(n: int, t0: int, t1: int, t2: int, blob: bytes, rep: bytes, which: int, rl: int) -> bool:
    """
    pre: 0 <= n < 2**32
    pre: 0 <= t0 < 65536 and 0 <= t1 < 65536 and 0 <= t2 < 65536
    pre: len(blob) == 18
    pre: len(rep) == 4
    pre: 0 <= which <= 2
    pre: 0 <= rl <= 4
    post: _
    """
    track.entered()
    dev = shard_int("DEV", 0)  # 0 replace, 1 drop, 2 duplicate, 3 swap, 4 truncate (complete shorter frame), 5 stream ends inside frame
    ctl = shard_ints("CTL", "3,2,3")
    pll = shard_ints("PL", "1,0,2")
    types = [t0, t1, t2]
    cts, msgs, sent = [], [], []
    for i in range(3):
        ct = blob[6 * i : 6 * i + ctl[i]]
        payload = blob[6 * i + 3 : 6 * i + 3 + pll[i]]
        cts.append(ct)
        msgs.append((types[i], payload))
        sent.append((n + i, ct, R.enc_noise_inner(types[i], payload)))
    # ideal AEAD world: ciphertexts produced under different nonces are distinct tokens
    if cts[0] == cts[1] or cts[0] == cts[2] or cts[1] == cts[2]:
        return True
    i = concretize(which, 1 if dev == 3 else 2)
    bodies = list(cts)
    cut_tail = 0
    if dev == 0:
        bodies[i] = rep[: concretize(rl, 4)]
    elif dev == 1:
        del bodies[i]
    elif dev == 2:
        bodies.insert(i + 1, cts[i])
    elif dev == 3:
        bodies[i], bodies[i + 1] = bodies[i + 1], bodies[i]
    elif dev == 4:
        bodies[i] = cts[i][: concretize(rl, len(cts[i]) - 1)]
    else:
        bodies = bodies[: i + 1]
        cut_tail = 1 + concretize(rl, len(cts[i]) + 1)  # 1 .. len+2 bytes missing: the frame is incomplete
    # reference receiver: frame j of the stream is authentic iff it is byte-equal to what was sent
    # under the receiver's current counter
    exp = []
    bad = False
    k = 0
    nb = len(bodies) - (1 if cut_tail else 0)
    for j in range(nb):
        if k < 3 and bodies[j] == cts[k]:
            exp.append(msgs[k])
            k += 1
        else:
            bad = True
            break
    stream = b"".join(R.enc_noise_outer(b) for b in bodies)
    if cut_tail:
        stream = stream[: len(stream) - cut_tail]

    h, cn, tr, _dev = H.ready_helper(0)
    ideal = H.IdealAEAD(sent)
    h._decrypt_cipher._decrypt = ideal.decrypt
    h._decrypt_cipher._nonce = n
    H.feed(h, tr, stream)
    if track.reached():
        return False
    if len(cn.got) != len(exp):
        return track.fail(f"delivered {len(cn.got)} messages; the authentic prefix has {len(exp)}")
    for (gt, gp), (et, ep) in zip(cn.got, exp):
        if gt != et or gp != ep:
            return track.fail("a delivered message is not byte-exactly the message sent at that position")
    if bad:
        if not cn.errors:
            return track.fail("a frame that fails authentication was not reported")
        if not isinstance(cn.errors[0], InvalidEncryptionKeyAPIError):
            return track.fail(f"first reported error is {type(cn.errors[0]).__name__}, not InvalidEncryptionKeyAPIError")
        why = _closed_ok(h, cn, tr)
        if why:
            return track.fail(why)
    else:
        if cn.errors:
            return track.fail(f"error {type(cn.errors[0]).__name__} reported although every complete frame was authentic")
        if tr.closed:
            return track.fail("closed although every complete frame was authentic")
        if h._decrypt_cipher._nonce != n + len(exp):
            return track.fail("inbound nonce did not advance by the number of delivered frames")
    if len(tr.writes) != 1:
        return track.fail("something was written in reaction to inbound frames")
    return True


# ------------------------------------------------------------------------------------------------
# H04b  handshake-phase deviations
# ------------------------------------------------------------------------------------------------

def _in_handshake_state(psk_i: int = 0, name: bytes = b"dev"):
    """concrete set-up: helper that has accepted an honest server hello (state HANDSHAKE)."""
    with NoTracing():
        h, cn, tr = H.new_helper(psk_i, None)
        dev = NR.Device(H.PSKS[psk_i], name)
        hello, hs = dev.accept(bytes(tr.writes[0]))
        h.data_received(hello)
        assert h._state == N.NOISE_STATE_HANDSHAKE and not cn.errors
    return h, cn, tr, dev, hs


def h04b_hello(sel: int, blob: bytes, ln: int, trail: int) -> bool:
    """
    pre: 0 <= sel < 256
    pre: len(blob) == 5
    pre: 0 <= ln <= 4
    pre: 0 <= trail <= 1
    post: _
    """
    track.entered()
    if sel == 1:
        return True  # a known protocol selector is no deviation
    L = concretize(ln, 4)
    body = b"" if L == 0 else bytes([sel]) + blob[: L - 1]  # empty hello / unknown selector + anything
    chunk = R.enc_noise_outer(body)
    if concretize(trail, 1):
        chunk = chunk + R.enc_noise_outer(blob[3:5])
    with NoTracing():
        h, cn, tr = H.new_helper(0, None)
    H.feed(h, tr, chunk)
    if track.reached():
        return False
    if not cn.errors:
        return track.fail("empty hello / unknown protocol selector not reported")
    if not _handshake_only(cn.errors[0]):
        return track.fail(f"first error is {type(cn.errors[0]).__name__}, expected the handshake error class")
    why = _ready_carries(h, True, HandshakeAPIError) or _closed_ok(h, cn, tr)
    if why:
        return track.fail(why)
    if cn.got:
        return track.fail("a message was delivered")
    return True


def h04b_name(name: str, expected: Optional[str]) -> bool:
    """
    pre: len(name) <= NAMELEN
    pre: expected is None or len(expected) <= NAMELEN
    post: _
    """
    track.entered()
    split = shard_int("SPLIT", 0)
    if "\x00" in name:
        return True  # the name field is NUL-terminated: such a name cannot be announced
    raw = name.encode("utf-8")
    h, cn, tr = H.new_helper(0, expected)
    with NoTracing():
        dev = NR.Device(H.PSKS[0], None)
        _hello, hs = dev.accept(bytes(tr.writes[0]))
        data = dev.data_frame(33, b"xy")
    hello = R.enc_noise_outer(bytes([1]) + raw + bytes([0]))
    # the device knows the key and keeps talking: handshake reply and a data frame follow
    if split == 0:
        chunks = [hello + hs + data]
    elif split == 1:
        chunks = [hello, hs + data]
    else:
        chunks = [hello[:3], hello[3:] + hs, data]
    for c in chunks:
        if tr.closed:
            break
        H.feed(h, tr, c)
    if track.reached():
        return False
    if expected is None or expected == name:
        if cn.errors:
            return track.fail(f"matching / unconstrained device name rejected with {type(cn.errors[0]).__name__}")
        if not h.ready_future.done() or h.ready_future.exception() is not None:
            return track.fail("session with an acceptable device name did not become ready")
        if len(cn.got) != 1 or cn.got[0][0] != 33 or cn.got[0][1] != b"xy":
            return track.fail("message of the accepted session not delivered")
        return True
    if not cn.errors or not isinstance(cn.errors[0], BadNameAPIError):
        return track.fail("mismatching device name not reported as BadNameAPIError first")
    if cn.errors[0].received_name != name:
        return track.fail("BadNameAPIError.received_name differs from the announced name")
    if cn.got:
        return track.fail("a message was delivered after the device name had been rejected")
    why = _ready_carries(h, True, BadNameAPIError) or _closed_ok(h, cn, tr)
    if why:
        return track.fail(why)
    return True


NAMELEN = shard_int("NAMELEN", 2)


def h04b_hs_error(first: int, blob: bytes, ln: int, pos: int, trail: int) -> bool:
    """
    pre: 1 <= first < 256
    pre: len(blob) == 5
    pre: 0 <= ln <= 3
    pre: 0 <= pos <= 20
    pre: 0 <= trail <= 1
    post: _
    """
    track.entered()
    mode = shard_int("TEXT", 0)  # 0: the MAC-failure text; 1: short symbolic ASCII text; 2: MAC-failure text with one byte changed
    if mode == 0:
        text = MAC_FAILURE
    elif mode == 1:
        text = blob[: concretize(ln, 3)]
        for x in text:
            if x >= 128:
                return True  # explanation texts are ASCII (a non-UTF-8 text is outside the statement)
    else:
        p = concretize(pos, 20)
        if blob[0] >= 128 or blob[0] == MAC_FAILURE[p]:
            return True
        text = MAC_FAILURE[:p] + blob[0:1] + MAC_FAILURE[p + 1 :]
    chunk = R.enc_noise_outer(bytes([first]) + text)
    if concretize(trail, 1):
        chunk = chunk + R.enc_noise_outer(blob[3:5])
    h, cn, tr, _dev, _hs = _in_handshake_state()
    H.feed(h, tr, chunk)
    if track.reached():
        return False
    if not cn.errors:
        return track.fail("handshake error frame not reported")
    e = cn.errors[0]
    if mode == 0:
        cls = InvalidEncryptionKeyAPIError
        if not isinstance(e, InvalidEncryptionKeyAPIError):
            return track.fail(f"'Handshake MAC failure' reported as {type(e).__name__}, not InvalidEncryptionKeyAPIError")
    else:
        cls = HandshakeAPIError
        if not _handshake_only(e):
            return track.fail(f"handshake error frame with another explanation reported as {type(e).__name__}, expected the handshake error class")
    why = _ready_carries(h, True, cls) or _closed_ok(h, cn, tr)
    if why:
        return track.fail(why)
    if mode != 0 and isinstance(h.ready_future.exception(), InvalidEncryptionKeyAPIError):
        return track.fail("ready_future reports an invalid key for an unrelated handshake error")
    if cn.got:
        return track.fail("a message was delivered")
    return True


def h04b_marker(marker: int, blob: bytes, ln: int, t0: int) -> bool:
    """
    pre: 0 <= marker < 256
    pre: len(blob) == 8
    pre: 0 <= ln <= 3
    pre: 0 <= t0 < 65536
    post: _
    """
    track.entered()
    st = shard_int("ST", 1)
    if marker == 1:
        return True
    bad = bytes([marker]) + blob[0 : 2 + concretize(ln, 3)]  # at least a whole 3-byte header
    exp = []
    if st == 1:
        with NoTracing():
            h, cn, tr = H.new_helper(0, None)
        chunk = bad
    elif st == 2:
        h, cn, tr, _dev, _hs = _in_handshake_state()
        chunk = bad
    else:
        h, cn, tr, _dev = H.ready_helper(0)
        ct = blob[5:7]
        ideal = H.IdealAEAD([(0, ct, R.enc_noise_inner(t0, blob[7:8]))])
        h._decrypt_cipher._decrypt = ideal.decrypt
        exp = [(t0, blob[7:8])]
        chunk = R.enc_noise_outer(ct) + bad  # an authentic frame, then the bad marker in the same chunk
    pending = not h.ready_future.done()
    H.feed(h, tr, chunk)
    if track.reached():
        return False
    if not cn.errors or not isinstance(cn.errors[0], ProtocolAPIError):
        return track.fail("wrong marker byte not reported as ProtocolAPIError first")
    why = _ready_carries(h, pending, ProtocolAPIError) or _closed_ok(h, cn, tr)
    if why:
        return track.fail(why)
    if len(cn.got) != len(exp) or (exp and (cn.got[0][0] != exp[0][0] or cn.got[0][1] != exp[0][1])):
        return track.fail("deliveries are not exactly the authentic frames before the wrong marker byte")
    return True


def h04b_wrongkey(variant: int, pos: int, bit: int, cut: int) -> bool:
    """
    pre: 0 <= variant <= 2
    pre: 0 <= pos <= 47
    pre: 0 <= bit <= 7
    pre: 0 <= cut <= 1
    post: _
    """
    track.entered()
    v = concretize(variant, 2)
    with NoTracing():
        h, cn, tr = H.new_helper(0, None)
        opening = bytes(tr.writes[0])
    if v == 0:
        # a conformant device holding a different key: it cannot authenticate message 1 and answers
        # with the error frame of the firmware
        with NoTracing():
            dev = NR.Device(H.PSKS[1], b"dev")
            hello, hs = dev.accept(opening)
        if hs != NR.error_frame(MAC_FAILURE):
            return track.fail("reference responder with a different key accepted the client's message")
    elif v == 1:
        # a device with a different key that answers with a handshake message anyway
        with NoTracing():
            r = NR.Responder(H.PSKS[1])
            msg1 = NR.parse_client_opening(opening)
            try:
                r.read_message_1(msg1)
            except NR.NoiseRefError:
                r.ss.mix_hash(msg1[32:])
            hello = NR.server_hello_frame(b"dev")
            hs = NR.handshake_frame(r.write_message_2(b""))
    else:
        # the right key, one bit of the handshake message flipped in transit
        p = concretize(pos, 47)
        b = concretize(bit, 7)
        with NoTracing():
            dev = NR.Device(H.PSKS[0], b"dev")
            hello, hs = dev.accept(opening)
            raw = bytearray(hs)
            raw[4 + p] ^= 1 << b
            hs = bytes(raw)
    with NoTracing():
        ok_dev = NR.Device(H.PSKS[0], b"dev")
        ok_dev.accept(opening)
        trailing = ok_dev.data_frame(5, b"z")
    if concretize(cut, 1):
        chunks = [hello, hs + trailing]
    else:
        chunks = [hello + hs + trailing]
    for c in chunks:
        if tr.closed:
            break
        H.feed(h, tr, c)
    if track.reached():
        return False
    if not cn.errors or not isinstance(cn.errors[0], InvalidEncryptionKeyAPIError):
        return track.fail(f"key mismatch / tampered handshake reported as {type(cn.errors[0]).__name__ if cn.errors else None}")
    why = _ready_carries(h, True, InvalidEncryptionKeyAPIError) or _closed_ok(h, cn, tr)
    if why:
        return track.fail(why)
    if cn.got:
        return track.fail("a message was delivered")
    return True


def h04b_trunc_hs(ln: int, first: int) -> bool:
    """
    pre: 0 <= ln <= 49
    pre: 0 <= first <= 1
    post: _
    """
    track.entered()
    L = concretize(ln, 49)
    h, cn, tr, _dev, hs = _in_handshake_state()
    body = hs[3:][:L]
    full = L == 49
    H.feed(h, tr, NR.frame(body))
    if track.reached():
        return False
    if full:
        if cn.errors or not h.ready_future.done() or h.ready_future.exception() is not None:
            return track.fail("complete handshake frame not accepted")
        return True
    if not cn.errors:
        return track.fail("truncated handshake frame not reported")
    why = _closed_ok(h, cn, tr)
    if why:
        return track.fail(why)
    if cn.got:
        return track.fail("a message was delivered")
    exc = h.ready_future.exception() if h.ready_future.done() else None
    if not isinstance(cn.errors[0], LISTED) or not isinstance(exc, LISTED):
        return track.fail(
            f"handshake frame truncated to {L} bytes: reported {type(cn.errors[0]).__name__}, readiness wait receives "
            f"{type(exc).__name__}; neither is one of the specific error classes",
            SIG_TRUNC_HS,
        )
    return True


def h04b_plain(blob: bytes, ln: int) -> bool:
    """
    pre: len(blob) == 3
    pre: 0 <= ln <= 2
    post: _
    """
    track.entered()
    chunk = blob[: 1 + concretize(ln, 2)]
    if chunk[0] == 0:
        return True  # the plaintext preamble: no deviation
    base_loop()
    cn = RecConn()
    h = APIPlaintextFrameHelper(connection=cn, client_info="c", log_name="x")
    cn.helper = h
    tr = RecTransport()
    h.connection_made(tr)
    H.feed(h, tr, chunk)
    if track.reached():
        return False
    if cn.got:
        return track.fail("a message was delivered")
    if chunk[0] >= 128:
        # first byte of a multi-byte varint preamble (the code accepts non-minimal varints): whatever
        # the value turns out to be, nothing may be delivered and an error must be a protocol error
        if cn.errors and not (isinstance(cn.errors[0], ProtocolAPIError) and tr.closed):
            return track.fail(f"invalid preamble reported as {type(cn.errors[0]).__name__} / not closed")
        return True
    if not cn.errors:
        return track.fail("non-zero first byte on a plaintext connection not reported")
    e = cn.errors[0]
    if chunk[0] == 1:
        if not isinstance(e, RequiresEncryptionAPIError):
            return track.fail(f"device speaking the encrypted framing reported as {type(e).__name__}, not RequiresEncryptionAPIError")
    elif not isinstance(e, ProtocolAPIError):
        return track.fail(f"invalid preamble reported as {type(e).__name__}, not ProtocolAPIError")
    if not tr.closed:
        return track.fail("transport not closed")
    return True


def h04b_noise_gets_plain(t: int, blob: bytes, ln: int, trail: int) -> bool:
    """
    pre: 0 <= t < 2**14
    pre: len(blob) == 4
    pre: 0 <= ln <= 2
    pre: 0 <= trail <= 1
    post: _
    """
    track.entered()
    chunk = R.enc_plain_frame(t, blob[: concretize(ln, 2)])
    if concretize(trail, 1):
        chunk = chunk + R.enc_plain_frame(1, blob[2:4])
    with NoTracing():
        h, cn, tr = H.new_helper(0, None)
    H.feed(h, tr, chunk)
    if track.reached():
        return False
    if not cn.errors or not isinstance(cn.errors[0], ProtocolAPIError):
        return track.fail("plaintext frame on an encrypted connection not reported as ProtocolAPIError first")
    why = _ready_carries(h, True, ProtocolAPIError) or _closed_ok(h, cn, tr)
    if why:
        return track.fail(why)
    if cn.got:
        return track.fail("a message was delivered")
    return True


# ------------------------------------------------------------------------------------------------
# H04c  real-cipher tamper (validates the ideal-AEAD stub); solver-driven enumeration by construction
# ------------------------------------------------------------------------------------------------

TAMPER_MSGS = [(1, b""), (300, b"ab"), (65535, bytes(range(20)))]


def h04c_tamper(fi: int, pos: int, bit: int) -> bool:
    """
    pre: 0 <= fi <= 2
    pre: 0 <= pos
    pre: 0 <= bit <= 7
    post: _
    """
    track.entered()
    frames_sel = shard_ints("FRAMES", "1")
    bits_sel = shard_ints("BITS", "0")
    psk_i = shard_int("PSK", 0)
    f = frames_sel[concretize(fi, len(frames_sel) - 1)]
    b = bits_sel[concretize(bit, len(bits_sel) - 1)]
    h, cn, tr, dev = H.ready_helper(psk_i)
    with NoTracing():
        frames = [dev.data_frame(t, p) for t, p in TAMPER_MSGS]
    p = concretize(pos, len(frames[f]) - 1)
    with NoTracing():
        raw = bytearray(frames[f])
        raw[p] ^= 1 << b
        frames[f] = bytes(raw)
    H.feed(h, tr, b"".join(frames))
    if track.reached():
        return False
    exp = TAMPER_MSGS[:f]
    if len(cn.got) != len(exp):
        return track.fail(f"delivered {len(cn.got)} messages; the untouched prefix has {len(exp)}")
    for (gt, gp), (et, ep) in zip(cn.got, exp):
        if gt != et or gp != ep:
            return track.fail("a delivered message differs from the message sent")
    if p >= 3:
        if not cn.errors or not isinstance(cn.errors[0], InvalidEncryptionKeyAPIError):
            return track.fail("flipped ciphertext bit not reported as InvalidEncryptionKeyAPIError first")
        why = _closed_ok(h, cn, tr)
        if why:
            return track.fail(why)
    elif p == 0:
        if not cn.errors or not isinstance(cn.errors[0], ProtocolAPIError):
            return track.fail("flipped marker bit not reported as ProtocolAPIError first")
        why = _closed_ok(h, cn, tr)
        if why:
            return track.fail(why)
    else:
        # flipped length byte: the frame is cut short / swallows what follows (authentication failure)
        # or is still incomplete (nothing happens yet); either way nothing forged is delivered
        if cn.errors:
            if not isinstance(cn.errors[0], (InvalidEncryptionKeyAPIError, ProtocolAPIError)):
                return track.fail(f"misframed stream reported as {type(cn.errors[0]).__name__}")
            why = _closed_ok(h, cn, tr)
            if why:
                return track.fail(why)
    return True


# ------------------------------------------------------------------------------------------------
# H04d  key strings
# ------------------------------------------------------------------------------------------------

ALPHA = ["A", "a", "0", "+", "/", "=", "-", " ", "!", "Q", "\n", "_", "é"]


def _try_key(s: str):
    """run the real constructor (and thereby binascii's C decoder) on a concrete string, untraced.
    Returns (exception or None, transport)."""
    with NoTracing():
        base_loop()
        cn = RecConn()
        tr = RecTransport()
        try:
            h = APINoiseFrameHelper(connection=cn, noise_psk=s, expected_name=None, client_info="c", log_name="x")
        except Exception as e:  # noqa: BLE001
            return e, tr, cn
        return None, tr, cn


def h04d_short(a: int, b: int, c: int, d: int, ln: int) -> bool:
    """
    pre: 0 <= a <= 12 and 0 <= b <= 12 and 0 <= c <= 12 and 0 <= d <= 12
    pre: 0 <= ln <= KEYLEN
    post: _
    """
    track.entered()
    L = concretize(ln, KEYLEN)
    first = shard_int("FIRST", -1)
    idx = [a, b, c, d][:L]
    chars = []
    for j, x in enumerate(idx):
        if j == 0 and first >= 0:
            chars.append(ALPHA[first])
        else:
            chars.append(ALPHA[concretize(x, 12)])
    s = "".join(chars)
    exc, tr, cn = _try_key(s)
    if track.reached():
        return False
    # at most 4 characters can never be base64 for 32 bytes
    if exc is None:
        return track.fail(f"key string {s!r} accepted")
    if not isinstance(exc, InvalidEncryptionKeyAPIError):
        return track.fail(f"key string {s!r} rejected with {type(exc).__name__}, not InvalidEncryptionKeyAPIError")
    if tr.writes or cn.got or cn.errors:
        return track.fail("something was written / reported for a rejected key")
    return True


KEYLEN = shard_int("KEYLEN", 3)


def h04d_keys(k: int, ci: int, reps: int) -> bool:
    """
    pre: 0 <= k <= 44
    pre: 0 <= ci <= 12
    pre: 0 <= reps <= 2
    post: _
    """
    track.entered()
    key = H.PSK_B64[shard_int("PSK", 0)]
    mode = shard_int("MODE", 0)  # 0 truncate at k, 1 extend with reps+1 copies of an alphabet character
    if mode == 0:
        K = concretize(k, 44)
        s = key[:K]
        must = "accept" if K == 44 else ("reject" if K <= 42 else "either")
    else:
        s = key + ALPHA[concretize(ci, 12)] * (1 + concretize(reps, 2))
        must = "either"  # a2b_base64 ignores data after the padding; the statement does not forbid that leniency
    exc, tr, cn = _try_key(s)
    if track.reached():
        return False
    if exc is not None and not isinstance(exc, InvalidEncryptionKeyAPIError):
        return track.fail(f"key string {s!r} raises {type(exc).__name__}, not InvalidEncryptionKeyAPIError")
    if exc is not None and (tr.writes or cn.errors):
        return track.fail("something was written / reported for a rejected key")
    if must == "accept" and exc is not None:
        return track.fail("canonical 44-character key rejected")
    if must == "reject" and exc is None:
        return track.fail(f"key truncated to {len(s)} characters (fewer than 256 bits) accepted")
    return True


# ------------------------------------------------------------------------------------------------

def shards(tier: str) -> list:
    quick = tier == "quick"
    out = []
    # H04a
    devs = {0: "replace by arbitrary bytes", 1: "drop", 2: "duplicate", 3: "swap", 4: "truncate (complete shorter frame)", 5: "stream ends inside a frame"}
    ctls = ["3,2,3", "2,2,2", "1,3,3"]
    for d, what in devs.items():
        for ctl in ctls:
            out.append({"fn": "h04a_data", "env": {"DEV": d, "CTL": ctl}, "cond_timeout": 400,
                        "desc": f"data phase, ideal AEAD, symbolic inbound nonce: {what} frame i of 3 (ciphertext token lengths {ctl}), trailing honest frames in the same chunk"})
    # H04b
    out.append({"fn": "h04b_hello", "env": {}, "cond_timeout": 300, "desc": "empty hello / protocol selector symbolic byte != 1 followed by symbolic bytes"})
    for sp in (0, 1, 2):
        out.append({"fn": "h04b_name", "env": {"NAMELEN": 3 if (sp == 0 or not quick) else 2, "SPLIT": sp}, "cond_timeout": 600,
                    "desc": f"symbolic device name vs symbolic Optional expected name; device keeps talking (handshake + data), chunking variant {sp}"})
    for m in (0, 1, 2):
        out.append({"fn": "h04b_hs_error", "env": {"TEXT": m}, "cond_timeout": 400,
                    "desc": "handshake frame with first byte != 0 and explanation " + ["== 'Handshake MAC failure'", "short symbolic ASCII text", "MAC failure text with one byte changed"][m]})
    for st in (1, 2, 3):
        out.append({"fn": "h04b_marker", "env": {"ST": st}, "cond_timeout": 300, "desc": f"marker byte symbolic != 1 in state {st} (1 HELLO, 2 HANDSHAKE, 3 READY after an authentic frame)"})
    out.append({"fn": "h04b_wrongkey", "env": {}, "cond_timeout": 600, "desc": "real cipher: device with another key (error frame / answers anyway), every bit of the handshake message flipped"})
    out.append({"fn": "h04b_trunc_hs", "env": {}, "cond_timeout": 300, "desc": "handshake frame truncated to every length 0..48"})
    out.append({"fn": "h04b_plain", "env": {}, "cond_timeout": 300, "desc": "plaintext helper receiving 1..3 symbolic bytes with non-zero first byte"})
    out.append({"fn": "h04b_noise_gets_plain", "env": {}, "cond_timeout": 300, "desc": "noise helper receiving plaintext frames (symbolic type/payload)"})
    # H04c
    if quick:
        out.append({"fn": "h04c_tamper", "env": {"FRAMES": "0,1,2", "BITS": "0,7", "PSK": 0}, "cond_timeout": 400, "desc": "real cipher: every byte of every frame (incl. header), bits 0 and 7 flipped"})
    else:
        for psk in (0, 1):
            for bits in ("0,1,2,3", "4,5,6,7"):
                out.append({"fn": "h04c_tamper", "env": {"FRAMES": "0,1,2", "BITS": bits, "PSK": psk}, "cond_timeout": 900, "desc": f"real cipher key {psk}: every byte of every frame, bits {bits}"})
    # H04d
    if quick:
        out.append({"fn": "h04d_short", "env": {"KEYLEN": 3}, "cond_timeout": 500, "desc": "every string of length <= 3 over the 13-character alphabet (solver-driven enumeration: the string enters binascii's C decoder)"})
    else:
        out.append({"fn": "h04d_short", "env": {"KEYLEN": 3}, "cond_timeout": 500, "desc": "every string of length <= 3 over the 13-character alphabet"})
        for f in range(13):
            out.append({"fn": "h04d_short", "env": {"KEYLEN": 4, "FIRST": f}, "cond_timeout": 900, "desc": f"every string of length 4 starting with alphabet character {f}"})
    for psk in (0, 1):
        for mode in (0, 1):
            out.append({"fn": "h04d_keys", "env": {"PSK": psk, "MODE": mode}, "cond_timeout": 300,
                        "desc": f"canonical key {psk} " + ("truncated at every length" if mode == 0 else "extended by 1..3 copies of each alphabet character")})
    return out


BOUNDS = {
    "quick": "data phase: inbound nonce symbolic in [0,2^32), 3 honest frames with symbolic types [0,65536), symbolic payload (1,0,2 bytes) and symbolic ciphertext tokens (lengths 3,2,3 / 2,2,2 / 1,3,3), one deviation (replace by any 0..4 symbolic bytes / drop / duplicate / swap / truncate to any shorter length / stream ends inside the frame) at any frame, all in one chunk. "
             "handshake phase: symbolic selector/marker/first bytes, up to 3 further symbolic bytes, device and expected names symbolic strings of length <= 3 (one chunk) / <= 2 (split chunks), any characters except NUL, explanation texts ASCII. "
             "real cipher: every bit of the handshake message, bits 0 and 7 of every byte of 3 data frames, 2 keys. "
             "key strings: all strings of length <= 3 over " + repr("".join(ALPHA)) + " and the two canonical keys truncated at every length / extended by up to 3 copies of one alphabet character",
    "thorough": "as quick with names of length <= 3 in every chunking, all 8 bits of every data-frame byte, both keys, key strings of length <= 4",
}
OUTSIDE = [
    "cryptographic strength: data-phase content checks assume the ideal AEAD; h04c/h04b_wrongkey execute the real cipher on solver-enumerated bit flips",
    "several deviations in one session (each check injects one; the first one is shown to close the session)",
    "device names / explanation texts that are not valid UTF-8 (UnicodeDecodeError escapes data_received: closes, but with an unspecific error; the statement does not list this deviation)",
    "an authentic frame whose plaintext is shorter than its 4-byte header (not a deviation the statement lists)",
    "key strings longer than 4 characters other than the truncated/extended canonical keys; stray characters that binascii.a2b_base64 ignores are accepted (the statement does not forbid that leniency); the 43-character unpadded key is treated as don't-care",
]
ASSUMPTIONS = [
    "ideal AEAD (DESIGN.md section 2): decrypt(nonce, c) yields the plaintext iff c is byte-equal to what the peer produced under that nonce, else InvalidTag; ciphertexts under different nonces are distinct tokens",
    "an exception escaping data_received is treated as asyncio does: transport closed, connection_lost(exc); report_fatal_error closes the helper as APIConnection._cleanup does",
    "Struct('<LQ').pack behind PACK_NONCE is modelled by CrossHair's struct.pack (plugin patch); nonce layout, key assignment and tag position are validated with the real cipher in h04c / C03 real-cipher shards",
    "set-up of the READY / HANDSHAKE state runs the real code untraced against vf/noise_ref.py with pinned ephemeral keys",
    "h04d executes the real constructor untraced on solver-enumerated concrete strings (binascii is C code)",
]
EXPLANATION = ("C04: oracle = deliveries are byte-exactly the authentic prefix; the first complete frame failing authentication or a handshake check is reported first with its specific class "
               "(InvalidEncryptionKey / BadName with the received name / Handshake / Protocol / RequiresEncryption), a pending ready_future receives that class, transport closed, state CLOSED, "
               "nothing after it delivered even inside the same chunk; malformed key strings raise InvalidEncryptionKeyAPIError in the constructor with nothing written.")
