"""C08 -- closing a connection releases everything and silences it."""
from __future__ import annotations

from vf import engine as E
from vf import track
from vf.engine import Scenario
from vf.harness.common import concretize, shard_int
from vf.scen import CLOSED

PROPERTY = "C08"

ALPHA = [E.DRAIN, E.TURN, E.TIMER, E.START, E.FINISH, E.DISCONNECT, E.FORCE, E.CANCEL, E.CONNECT_OK, E.CONNECT_ERR,
         E.D_HELLO, E.D_CONNECT, E.D_GARBAGE, E.D_DISCREQ, E.D_DISCRESP, E.D_MSG, E.D_BADPAYLOAD, E.EOF, E.RESET,
         E.WRITEFAIL, E.FLUSH, E.D_PINGREQ, E.LONGWAIT, E.RESOLVE_OK, E.REQUEST]
# quick tier: without the events that only add orderings of already covered effects
ALPHA_Q = [E.DRAIN, E.TURN, E.TIMER, E.FINISH, E.DISCONNECT, E.FORCE, E.CANCEL, E.CONNECT_OK, E.CONNECT_ERR,
           E.D_HELLO, E.D_CONNECT, E.D_GARBAGE, E.D_DISCREQ, E.D_MSG, E.D_BADPAYLOAD, E.EOF, E.RESET,
           E.WRITEFAIL, E.D_PINGREQ, E.REQUEST, E.RESOLVE_OK]
ALPHA_FULL = ALPHA
if shard_int("QA", 0):
    ALPHA = ALPHA_Q
NA = len(ALPHA)
SH0 = shard_int("SH0", 0)
SH1 = shard_int("SH1", -1)  # thorough tier: the second event is fixed per shard as well
STAGE = shard_int("STAGE", 0)
NOISE = shard_int("NOISE", 0)  # 1: encrypted transport (the scenario starts with finish_connection parked on the noise handshake)
NEEDS_NOISE_PATCHES = True
PSK = "QRTIErOb/fcE9Ukd/5qA3RGYMn0Y+p06U58SCtOXvPc="


def audit(s: Scenario):
    """(why, signature) of the first released-and-silent clause violated by a closed connection, or None."""
    w = s.w
    if s.conn.connection_state is not CLOSED:
        return None
    for st in w.write_states:
        if st is CLOSED:
            return ("something was written to the transport after the connection had closed", None)
    for _t, st in s.sub_log:
        if st is CLOSED:
            return ("a subscriber received a message after the connection had closed", "C08/delivery-after-close")
    for tr in w.loop.transports:
        if not tr.closing:
            return ("a transport is left open by a closed connection", None)
    for sk in w.socks:
        # a socket whose hand-over raced with a cancellation never reached the connection (the
        # awaiting task was cancelled with the result in flight): not the connection's to close
        if sk.owned and not sk.closed:
            return ("a socket is left open by a closed connection", None)
    live = w.loop.live_timers()
    if live:
        names = [getattr(h._callback, "__name__", repr(h._callback)) for h in live]
        return (f"timers left armed by a closed connection: {names}", None)
    for kind, t, _info in s.tasks:
        if not t.done():
            return (f"the {kind} call is still blocked on a closed connection", None)
    return None


def _run(events: list) -> bool:
    track.entered()
    s = Scenario(STAGE, world_kw={"noise_psk": PSK} if NOISE else None)
    try:
        armed_after_close: list = []

        def mon(sc: Scenario) -> None:
            # the keep-alive and pong timers are cancelled by the close itself: from then on, at every
            # observation point (also before the loop has gone quiet), neither may be armed again
            c = sc.conn
            if c.connection_state is CLOSED and not armed_after_close:
                for h in sc.loop.live_timers():
                    cb = h._callback
                    if getattr(cb, "__self__", None) is c and getattr(cb, "__name__", "") in ("_async_send_keep_alive", "_async_pong_not_received"):
                        armed_after_close.append(cb.__name__)

        s.monitors.append(mon)
        for a in events:
            ev = ALPHA[concretize(a, NA - 1)]
            if not s.apply(ev):
                return track.pruned()  # event not enabled here
        s.settle()
        if s.conn.connection_state is not CLOSED:
            # still open: legitimate only while its transport is alive -- once connection_lost has been
            # delivered (EOF, reset, fatal transport error) the connection has to close and release
            if any(tr.lost_delivered for tr in s.w.loop.transports):
                if track.reached():
                    return False
                return track.fail(f"the transport is gone (connection_lost was delivered) but the connection did not close: nothing is released; trace={s.trace}")
            return True  # nothing to audit
        if track.reached():
            return False
        if armed_after_close:
            return track.fail(f"keep-alive timer {armed_after_close[0]} armed on a closed connection; trace={s.trace}")
        bad = audit(s)
        if bad is not None:
            return track.fail(f"{bad[0]}; trace={s.trace}", bad[1])
        return True
    finally:
        s.close()


def h08_3(a0: int, a1: int, a2: int) -> bool:
    """
    pre: a0 == SH0
    pre: 0 <= a1 < NA and 0 <= a2 < NA
    post: _
    """
    return _run([a0, a1, a2])


def h08_4(a0: int, a1: int, a2: int, a3: int) -> bool:
    """
    pre: a0 == SH0
    pre: 0 <= a1 < NA and 0 <= a2 < NA and 0 <= a3 < NA
    pre: SH1 < 0 or a1 == SH1
    post: _
    """
    return _run([a0, a1, a2, a3])


def _mk(stage: int, noise: int):
    return lambda: Scenario(stage, world_kw={"noise_psk": PSK} if noise else None)


def _enabled_first(stage: int, noise: int = 0, alpha=None) -> list:
    out = []
    for i, ev in enumerate(alpha or ALPHA_FULL):
        s = _mk(stage, noise)()
        try:
            if s.apply(ev):
                out.append(i)
        finally:
            s.close()
    return out


def shards(tier: str) -> list:
    out = []
    stages = [E.ST_RESOLVING, E.ST_RESOLVING_MDNS, E.ST_CONNECTING, E.ST_OPENED, E.ST_HELLO_SENT, E.ST_CONNECTED, E.ST_DISCONNECTING]
    quick = tier == "quick"
    alpha = ALPHA_Q if quick else ALPHA_FULL
    for st, nz in [(x, 0) for x in stages] + [(E.ST_HELLO_SENT, 1)]:
        for i in _enabled_first(st, nz, alpha):
            out.append({"fn": "h08_3", "env": {"STAGE": st, "SH0": i, "NOISE": nz, "QA": 1 if quick else 0}, "cond_timeout": 600 if quick else 1500, "path_timeout": 60,
                        "desc": f"stage {E.STAGE_NAMES[st]}{' (noise: handshake pending)' if nz else ''}, first event {E.NAMES[alpha[i]]}, then 2 symbolic events ({len(alpha)}-event alphabet); audit after the close"})
    if not quick:
        for st, nz in [(E.ST_CONNECTING, 0), (E.ST_HELLO_SENT, 0), (E.ST_CONNECTED, 0), (E.ST_DISCONNECTING, 0)]:
            for i, j in E.enabled_pairs(_mk(st, nz), ALPHA_Q):
                out.append({"fn": "h08_4", "env": {"STAGE": st, "SH0": i, "SH1": j, "NOISE": nz, "QA": 1}, "cond_timeout": 1500, "path_timeout": 60,
                            "desc": f"stage {E.STAGE_NAMES[st]}, events {E.NAMES[ALPHA_Q[i]]}, {E.NAMES[ALPHA_Q[j]]}, then 2 symbolic events (21-event alphabet); audit after the close"})
    return out


BOUNDS = {"quick": "6 lifecycle stages (resolving, connecting, socket opened, hello sent, connected, disconnecting) x 3 events from a 21-event alphabet (thorough: 25 events), incl. trailing device frames in the closing chunk and same-turn combinations",
          "thorough": "3 events from the 25-event alphabet after every stage plus every sequence of 4 events from the 21-event alphabet after connecting, hello sent, connected, disconnecting"}
OUTSIDE = ["sequences longer than the bound", "noise transport (frame-helper close on the noise path is covered by C04)"]
ASSUMPTIONS = ["SimLoop/SimTransport/FakeSock model of asyncio and the socket (see C05)", "audit runs after the loop has gone quiet without advancing virtual time"]
EXPLANATION = "C08: after any close: transports and sockets closed, no live timer, no pending API-call task, no write and no subscriber delivery with the connection in CLOSED."
