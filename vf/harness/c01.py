"""C01 -- plaintext stream reassembly is lossless and independent of TCP segmentation."""
from __future__ import annotations

from aioesphomeapi._frame_helper.plain_text import APIPlaintextFrameHelper

from vf import refcodec as R
from vf import track
from vf.harness.common import RecConn, RecTransport, base_loop, concretize, shard_int, shard_ints

PROPERTY = "C01"
BOUNDARY = {3: 127, 4: 128, 5: 16383, 6: 16384, 7: 16385}
TBITS = shard_int("TBITS", 14)


def _helper():
    base_loop()
    cn = RecConn()
    h = APIPlaintextFrameHelper(connection=cn, client_info="c", log_name="x")
    tr = RecTransport()
    h.connection_made(tr)
    cn.helper = h
    return h, cn, tr


def _payload(cls: int, blob: bytes, off: int) -> bytes:
    if cls <= 2:
        return blob[off : off + cls]
    n = BOUNDARY[cls]
    return blob[off : off + 1] + bytes([0x5A]) * (n - 2) + blob[off + 1 : off + 2]


def _stream(classes, types, blob):
    frames = []
    encs = []
    for i, c in enumerate(classes):
        p = _payload(c, blob, 2 * i)
        frames.append((types[i], p))
        encs.append(R.enc_plain_frame(types[i], p))
    ends = []
    pos = 0
    for e in encs:
        pos += len(e)
        ends.append(pos)
    return frames, b"".join(encs), ends


def _as_kind(kind: int, data: bytes):
    if kind == 0:
        return data
    if kind == 1:
        return bytearray(data)
    return memoryview(bytearray(data))


def _cut_positions(ends, n, cls_list):
    """cut candidates: every position for short streams; around header/boundaries for long ones."""
    if n <= 24:
        return list(range(n + 1))
    pos = set([0, n])
    start = 0
    for e in ends:
        for d in range(0, 6):
            if start + d <= n:
                pos.add(start + d)
        for d in range(0, 3):
            if e - d >= 0:
                pos.add(e - d)
        pos.add((start + e) // 2)
        start = e
    return sorted(pos)


def h01a_step(t0: int, t1: int, t2: int, blob: bytes, bi: int, ci: int, junkpos: int) -> bool:
    """
    pre: 0 <= t0 < 2**TBITS and 0 <= t1 < 2**TBITS and 0 <= t2 < 2**TBITS
    pre: len(blob) == 6
    pre: 0 <= bi and 0 <= ci
    pre: 0 <= junkpos < 2**40
    post: _
    """
    track.entered()
    classes = shard_ints("CLS", "1,1")
    kind = shard_int("KIND", 0)
    frames, S, ends = _stream(classes, [t0, t1, t2], blob)
    n = len(S)
    cuts = _cut_positions(ends, n, classes)
    # pre-state cut b lies inside the first frame (b == 0: empty buffer); chunk is S[b:c], c > b
    bcands = [p for p in cuts if p < ends[0]]
    b = bcands[concretize(bi, len(bcands) - 1)]
    ccands = [p for p in cuts if p > b]
    c = ccands[concretize(ci, len(ccands) - 1)]
    h, cn, tr = _helper()
    # representation invariant of the buffer between calls: exactly the bytes received since the last
    # delivered frame, which do not contain a complete frame; _pos is leftover scratch (arbitrary)
    if b > 0:
        h._buffer = S[0:b]
        h._buffer_len = b
    h._pos = junkpos
    h.data_received(_as_kind(kind, S[b:c]))
    if track.reached():
        return False
    exp = [f for f, e in zip(frames, ends) if e <= c]
    a2 = max([0] + [e for e in ends if e <= c])
    rem = S[a2:c]
    if cn.errors:
        return track.fail("an error was reported for a well-formed stream")
    if len(cn.got) != len(exp):
        return track.fail(f"delivered {len(cn.got)} frames, expected {len(exp)} (b={b}, c={c}, ends={ends})")
    for (gt, gp), (et, ep) in zip(cn.got, exp):
        if gt != et or gp != ep:
            return track.fail("delivered frame differs from the frame sent")
    if h._buffer_len != len(rem):
        return track.fail("retained byte count differs from the bytes of the incomplete trailing frame")
    if len(rem) and bytes(h._buffer[: h._buffer_len]) != rem:
        return track.fail("retained bytes differ from the bytes of the incomplete trailing frame")
    return True


def h01b_multi(t0: int, t1: int, blob: bytes, c1: int, c2: int) -> bool:
    """
    pre: 0 <= t0 < 2**TBITS and 0 <= t1 < 2**TBITS
    pre: len(blob) == 6
    pre: 0 <= c1 and 0 <= c2
    post: _
    """
    track.entered()
    classes = shard_ints("CLS", "1,1")
    kind = shard_int("KIND", 1)
    frames, S, ends = _stream(classes, [t0, t1], blob)
    n = len(S)
    cuts = _cut_positions(ends, n, classes)
    inner = [p for p in cuts if 0 < p < n]
    x = inner[concretize(c1, len(inner) - 1)]
    rest = [p for p in inner if p >= x]
    y = rest[concretize(c2, len(rest) - 1)]
    bounds = [0, x, y, n] if y > x else [0, x, n]
    h, cn, tr = _helper()
    if track.reached():
        return False
    for i in range(len(bounds) - 1):
        lo, hi = bounds[i], bounds[i + 1]
        chunk = _as_kind(kind, S[lo:hi])
        before = len(cn.got)
        h.data_received(chunk)
        # the caller owns its buffer: it may reuse / scrub it right after the call returns
        if kind == 1:
            for j in range(len(chunk)):
                chunk[j] = 0xEE
        elif kind == 2:
            chunk.obj[:] = bytes([0xEE]) * len(chunk.obj)
        exp_now = [f for f, e in zip(frames, ends) if lo < e <= hi]
        got_now = cn.got[before:]
        if len(got_now) != len(exp_now):
            return track.fail(f"chunk {lo}:{hi}: delivered {len(got_now)} frames, expected {len(exp_now)}")
        for (gt, gp), (et, ep) in zip(got_now, exp_now):
            if gt != et or gp != ep:
                return track.fail(f"chunk {lo}:{hi}: delivered frame differs from the frame sent")
    if cn.errors:
        return track.fail("an error was reported for a well-formed stream")
    if h._buffer_len != 0:
        return track.fail("bytes left in the buffer after the last complete frame")
    return True


def h01c_read_varuint(buf: bytes, start: int) -> bool:
    """
    pre: len(buf) == BLEN
    pre: 0 <= start <= BLEN
    post: _
    """
    track.entered()
    base_loop()
    h = APIPlaintextFrameHelper(connection=RecConn(), client_info="c", log_name="x")
    s = concretize(start, BLEN)
    h._buffer = buf
    h._buffer_len = len(buf)
    h._pos = s
    got = h._read_varuint()
    ref = R.dec_varint_lenient(buf, s)
    if track.reached():
        return False
    if ref is None:
        if got != -1:
            return track.fail("_read_varuint must return -1 when the buffer ends inside the varint")
        return True
    if got != ref[0]:
        return track.fail("_read_varuint value differs from the reference varint decoder")
    if h._pos != ref[1]:
        return track.fail("_read_varuint consumed a different number of bytes than the reference decoder")
    return True


BLEN = shard_int("BLEN", 4)


def shards(tier: str) -> list:
    out = []
    if tier == "quick":
        pairs = [(0, 0), (0, 1), (1, 0), (1, 1), (2, 1), (1, 2), (2, 2), (0, 2), (2, 0)]
        big = [(3, 1), (4, 0), (1, 6), (7, 1)]
        triples = [(1, 0, 1), (0, 1, 2)]
        tb, tb3 = 14, 7
        blens = [4]
    else:
        pairs = [(a, b) for a in range(3) for b in range(3)]
        big = [(a, b) for a in (3, 4, 5, 6, 7) for b in (0, 1)] + [(b, a) for a in (3, 4, 5, 6, 7) for b in (0, 1)] + [(4, 6), (6, 4)]
        triples = [(a, b, c) for a in range(3) for b in range(3) for c in (0, 1)]
        tb, tb3 = 21, 14
        blens = [4, 6]
    for p in pairs:
        out.append({"fn": "h01a_step", "env": {"CLS": ",".join(map(str, p)), "KIND": 0, "TBITS": tb}, "cond_timeout": 400,
                    "desc": f"inductive one-chunk step, 2 frames payload classes {p}, all cut pairs, bytes chunk"})
    for p in big:
        out.append({"fn": "h01a_step", "env": {"CLS": ",".join(map(str, p)), "KIND": 0, "TBITS": 7 if tier == "quick" else 14}, "cond_timeout": 400,
                    "desc": f"inductive step with boundary payload sizes {p} (cuts around headers/ends)"})
    for p in triples:
        out.append({"fn": "h01a_step", "env": {"CLS": ",".join(map(str, p)), "KIND": 0, "TBITS": tb3}, "cond_timeout": 500,
                    "desc": f"inductive step, chunk may complete 3 frames {p}"})
    for kind in (1, 2):
        for p in ([(1, 1), (2, 0)] if tier == "quick" else [(1, 1), (2, 0), (0, 2), (1, 2)]):
            out.append({"fn": "h01a_step", "env": {"CLS": ",".join(map(str, p)), "KIND": kind, "TBITS": 7}, "cond_timeout": 400,
                        "desc": f"inductive step with chunk type {'bytearray' if kind == 1 else 'memoryview'}"})
    for kind in (0, 1, 2):
        for p in ([(1, 1), (2, 1)] if tier == "quick" else [(1, 1), (2, 1), (0, 2), (2, 2), (3, 1)]):
            out.append({"fn": "h01b_multi", "env": {"CLS": ",".join(map(str, p)), "KIND": kind, "TBITS": 7 if tier == "quick" else 14}, "cond_timeout": 400,
                        "desc": f"fresh helper, whole stream in 2-3 chunks, chunk type {kind}, caller scrubs its buffer after each call"})
    for bl in blens:
        out.append({"fn": "h01c_read_varuint", "env": {"BLEN": bl}, "cond_timeout": 300,
                    "desc": f"_read_varuint on arbitrary {bl} bytes from any start offset vs reference decoder"})
    return out


BOUNDS = {
    "quick": "frames per chunk <= 3; types < 2^14 (2 frames) / 2^7 (3 frames, boundary sizes); payload lengths 0,1,2 with symbolic bytes and 127,128,16384,16385 with filler; every cut pair (short streams) / cuts around headers and frame ends (long streams); chunk types bytes, bytearray, memoryview",
    "thorough": "types < 2^21 (2 frames) / 2^14; adds 16383, all class pairs, 18 triples, _read_varuint over 6 arbitrary bytes",
}
OUTSIDE = [
    "a single chunk completing more than 3 frames (covered only through the per-frame loop iteration exercised 3 times)",
    "non-minimal varints sent by a device (accepted by the code; not part of 'frames sent by the device')",
    "payload lengths other than the listed classes",
]
ASSUMPTIONS = [
    "representation invariant used by the inductive step: between data_received calls the buffer holds exactly the bytes since the last delivered frame, no complete frame, _pos arbitrary; h01b_multi re-establishes it from a fresh helper end-to-end",
    "reference encoder vf/refcodec.py is the documented format",
    "CrossHair models of bytes/bytearray/memoryview",
]
EXPLANATION = "C01: oracle = frames whose last byte lies in the chunk are delivered in order exactly once during that data_received call; the tail is retained byte-exactly."
