"""C15 -- commands carry exactly the arguments the caller supplied.

Every harness calls the REAL `APIClient.<x>_command` on a client whose connection is a recording
fake (is_connected, symbolic api_version, send_message records) while the request class is a pbstub
double, so that every field value stays symbolic.  The oracle compares the *effective* value of
EVERY field the descriptor declares (assigned value, else the descriptor default) with the expected
value: key, `has_x`/`x` for each supplied optional (falsy values included), defaults elsewhere.
"""
from __future__ import annotations

from typing import List, Optional, Tuple

from aioesphomeapi import api_pb2 as PB
from aioesphomeapi.client import APIClient
from aioesphomeapi.model import APIVersion, UserService, UserServiceArg, UserServiceArgType

from vf import pbstub, track
from vf.harness.common import base_loop, concretize, shard_int
from vf.symtypes import IeeeFloat, RealFloat, same
from vf.track import NoTracing

PROPERTY = "C15"

BITS = shard_int("BITS", 0)  # presence pattern of the first NFIX optional arguments
NFIX = shard_int("NFIX", 0)
LEGACY = shard_int("LEGACY", -1)  # -1: version free; 1: below the threshold; 0: at/above it


class FakeConn:
    """recording stand-in for APIConnection as seen by APIClient command methods."""

    def __init__(self, apiv):
        self.is_connected = True
        self.api_version = apiv
        self.sent = []
        self.connected_address = None
        self.connection_state = None

    def send_message(self, m):
        self.sent.append(m)

    def send_messages(self, ms):
        self.sent.extend(ms)

    def set_log_name(self, n):
        pass


def _client(major, minor):
    base_loop()
    with NoTracing():
        cli = APIClient("10.0.0.1", 6053, None)
    conn = FakeConn(APIVersion(major, minor))
    cli._connection = conn
    return cli, conn


def _ge(major, minor, M, m) -> bool:
    """(major, minor) >= (M, m) -- written out independently of APIVersion's ordering."""
    return major > M or (major == M and minor >= m)


def _ver_ok(major, minor, M, m) -> bool:
    if LEGACY < 0:
        return True
    return _ge(major, minor, M, m) == (LEGACY == 0)


def _opt(exp: dict, name: str, val) -> None:
    if val is not None:
        exp["has_" + name] = True
        exp[name] = val


def _one(conn, pbcls, what: str):
    """exactly one message, of the double of `pbcls`, was handed to the connection."""
    if len(conn.sent) != 1:
        track.fail(what + ": not exactly one message sent")
        return None
    req = conn.sent[0]
    if getattr(type(req), "_pb", None) is not pbcls:
        track.fail(what + ": request is of another message class")
        return None
    return req


def _fields_ok(req, exp: dict, what: str, skip=()) -> bool:
    """every declared field has its expected effective value (descriptor default when not expected)."""
    fields = type(req)._fields
    for k in exp:
        if k not in fields:
            raise RuntimeError("harness: expectation names a field the descriptor lacks: " + k)
    for name in fields:
        if name in skip:
            continue
        rep, is_msg, default, _c = fields[name]
        got = getattr(req, name)
        if rep:
            want = exp.get(name, [])
            if len(got) != len(want):
                return track.fail(what + ": repeated field " + name + " has another length")
            for a, b in zip(got, want):
                if not same(a, b):
                    return track.fail(what + ": repeated field " + name + " differs")
            continue
        if is_msg:
            raise RuntimeError("harness: nested message field not expected here: " + name)
        if name in exp:
            if not same(got, exp[name]):
                return track.fail(what + ": field " + name + " does not carry the supplied/expected value")
        elif not same(got, default):
            return track.fail(what + ": field " + name + " is not at its default although nothing was supplied for it")
    return True


def _ms_ok(got, seconds) -> bool:
    """got is the whole number of milliseconds nearest to seconds*1000 (a tie may go either way)."""
    if not isinstance(got, int) or isinstance(got, bool):
        return False
    d = got - seconds * 1000
    return -0.5 <= d <= 0.5


MAX_SECONDS = 4294967.0  # the millisecond fields are uint32

LEG_OPEN = PB.LegacyCoverCommand.Value("LEGACY_COVER_COMMAND_OPEN")
LEG_CLOSE = PB.LegacyCoverCommand.Value("LEGACY_COVER_COMMAND_CLOSE")
LEG_STOP = PB.LegacyCoverCommand.Value("LEGACY_COVER_COMMAND_STOP")
PRESET_AWAY = PB.ClimatePreset.Value("CLIMATE_PRESET_AWAY")


# ---------------------------------------------------------------------------------------------


def h15_cover(key: int, major: int, minor: int, position: Optional[IeeeFloat], tilt: Optional[IeeeFloat], stop: bool) -> bool:
    """
    pre: 0 <= key < 2**32 and 0 <= major < 2**32 and 0 <= minor < 2**32
    pre: _ver_ok(major, minor, 1, 1)
    post: _
    """
    track.entered()
    cli, conn = _client(major, minor)
    with pbstub.install(PB.CoverCommandRequest):
        cli.cover_command(key, position=position, tilt=tilt, stop=stop)
    if track.reached():
        return False
    req = _one(conn, PB.CoverCommandRequest, "cover_command")
    if req is None:
        return False
    exp = {"key": key}
    if _ge(major, minor, 1, 1):
        _opt(exp, "position", position)
        _opt(exp, "tilt", tilt)
        exp["stop"] = stop
        return _fields_ok(req, exp, "cover_command (API >= 1.1)")
    # legacy encoding: one of STOP / OPEN / CLOSE, stop first; anything else has no legacy encoding
    if stop:
        exp["has_legacy_command"] = True
        exp["legacy_command"] = LEG_STOP
    elif position is not None and position == 1.0:
        exp["has_legacy_command"] = True
        exp["legacy_command"] = LEG_OPEN
    elif position is not None and position == 0.0:
        exp["has_legacy_command"] = True
        exp["legacy_command"] = LEG_CLOSE
    return _fields_ok(req, exp, "cover_command (legacy, API < 1.1)")


def h15_fan(key: int, state: Optional[bool], speed: Optional[int], speed_level: Optional[int],
            oscillating: Optional[bool], direction: Optional[int], preset_mode: Optional[str]) -> bool:
    """
    pre: 0 <= key < 2**32
    pre: preset_mode is None or len(preset_mode) <= 2
    post: _
    """
    track.entered()
    cli, conn = _client(1, 10)
    with pbstub.install(PB.FanCommandRequest):
        cli.fan_command(key, state=state, speed=speed, speed_level=speed_level, oscillating=oscillating,
                        direction=direction, preset_mode=preset_mode)
    if track.reached():
        return False
    req = _one(conn, PB.FanCommandRequest, "fan_command")
    if req is None:
        return False
    exp = {"key": key}
    _opt(exp, "state", state)
    _opt(exp, "speed", speed)
    _opt(exp, "speed_level", speed_level)
    _opt(exp, "oscillating", oscillating)
    _opt(exp, "direction", direction)
    _opt(exp, "preset_mode", preset_mode)
    return _fields_ok(req, exp, "fan_command")


def _sel(pres, i: int, v):
    """the i-th optional argument: supplied (v) iff the i-th presence flag is set."""
    return v if pres[i] else None


def _pres_ok(pres) -> bool:
    """the leading NFIX presence flags equal the shard's BITS (LSB first)."""
    for i in range(NFIX):
        if pres[i] != bool((BITS >> i) & 1):
            return False
    return True


B12 = Tuple[bool, bool, bool, bool, bool, bool, bool, bool, bool, bool, bool, bool]
B10 = Tuple[bool, bool, bool, bool, bool, bool, bool, bool, bool, bool]


def h15_light(key: int, mask: B12, state: bool, brightness: IeeeFloat, color_mode: int, color_brightness: IeeeFloat,
              rgb: Tuple[IeeeFloat, IeeeFloat, IeeeFloat], white: IeeeFloat, color_temperature: IeeeFloat,
              cold_white: IeeeFloat, warm_white: IeeeFloat, transition_length: int, flash_length: int,
              effect: str) -> bool:
    """
    pre: 0 <= key < 2**32
    pre: _pres_ok(mask)
    pre: len(effect) <= 2
    pre: 0 <= transition_length <= 4294967
    pre: 0 <= flash_length <= 4294967
    post: _
    """
    track.entered()
    state = _sel(mask, 0, state)
    brightness = _sel(mask, 1, brightness)
    color_mode = _sel(mask, 2, color_mode)
    color_brightness = _sel(mask, 3, color_brightness)
    rgb = _sel(mask, 4, rgb)
    white = _sel(mask, 5, white)
    color_temperature = _sel(mask, 6, color_temperature)
    cold_white = _sel(mask, 7, cold_white)
    warm_white = _sel(mask, 8, warm_white)
    transition_length = _sel(mask, 9, transition_length)
    flash_length = _sel(mask, 10, flash_length)
    effect = _sel(mask, 11, effect)
    cli, conn = _client(1, 10)
    with pbstub.install(PB.LightCommandRequest):
        cli.light_command(key, state=state, brightness=brightness, color_mode=color_mode,
                          color_brightness=color_brightness, rgb=rgb, white=white,
                          color_temperature=color_temperature, cold_white=cold_white, warm_white=warm_white,
                          transition_length=transition_length, flash_length=flash_length, effect=effect)
    if track.reached():
        return False
    req = _one(conn, PB.LightCommandRequest, "light_command")
    if req is None:
        return False
    exp = {"key": key}
    _opt(exp, "state", state)
    _opt(exp, "brightness", brightness)
    _opt(exp, "color_mode", color_mode)
    _opt(exp, "color_brightness", color_brightness)
    if rgb is not None:
        exp["has_rgb"] = True
        exp["red"] = rgb[0]
        exp["green"] = rgb[1]
        exp["blue"] = rgb[2]
    _opt(exp, "white", white)
    _opt(exp, "color_temperature", color_temperature)
    _opt(exp, "cold_white", cold_white)
    _opt(exp, "warm_white", warm_white)
    _opt(exp, "effect", effect)
    skip = []
    if transition_length is not None:
        exp["has_transition_length"] = True
        skip.append("transition_length")
        if not _ms_ok(req.transition_length, transition_length):
            return track.fail("light_command: transition_length is not seconds converted to the nearest whole millisecond")
    if flash_length is not None:
        exp["has_flash_length"] = True
        skip.append("flash_length")
        if not _ms_ok(req.flash_length, flash_length):
            return track.fail("light_command: flash_length is not seconds converted to the nearest whole millisecond")
    return _fields_ok(req, exp, "light_command", skip)


def h15_light_durations(key: int, mask: Tuple[bool, bool], transition_length: RealFloat, flash_length: RealFloat) -> bool:
    """
    pre: 0 <= key < 2**32
    pre: mask[0] or mask[1]
    pre: 0.0 <= transition_length <= MAX_SECONDS
    pre: 0.0 <= flash_length <= MAX_SECONDS
    post: _
    """
    track.entered()
    transition_length = _sel(mask, 0, transition_length)
    flash_length = _sel(mask, 1, flash_length)
    cli, conn = _client(1, 10)
    with pbstub.install(PB.LightCommandRequest):
        cli.light_command(key, transition_length=transition_length, flash_length=flash_length)
    if track.reached():
        return False
    req = _one(conn, PB.LightCommandRequest, "light_command")
    if req is None:
        return False
    exp = {"key": key}
    skip = []
    if transition_length is not None:
        exp["has_transition_length"] = True
        skip.append("transition_length")
        if not _ms_ok(req.transition_length, transition_length):
            return track.fail("light_command: transition_length is not seconds converted to the nearest whole millisecond")
    if flash_length is not None:
        exp["has_flash_length"] = True
        skip.append("flash_length")
        if not _ms_ok(req.flash_length, flash_length):
            return track.fail("light_command: flash_length is not seconds converted to the nearest whole millisecond")
    return _fields_ok(req, exp, "light_command", skip)


def h15_switch(key: int, state: bool) -> bool:
    """
    pre: 0 <= key < 2**32
    post: _
    """
    track.entered()
    cli, conn = _client(1, 10)
    with pbstub.install(PB.SwitchCommandRequest):
        cli.switch_command(key, state)
    if track.reached():
        return False
    req = _one(conn, PB.SwitchCommandRequest, "switch_command")
    if req is None:
        return False
    return _fields_ok(req, {"key": key, "state": state}, "switch_command")


def h15_climate(key: int, major: int, minor: int, mask: B10, mode: int, target_temperature: IeeeFloat,
                target_temperature_low: IeeeFloat, target_temperature_high: IeeeFloat,
                fan_mode: int, swing_mode: int, custom_fan_mode: str,
                preset: int, custom_preset: str, target_humidity: IeeeFloat) -> bool:
    """
    pre: 0 <= key < 2**32 and 0 <= major < 2**32 and 0 <= minor < 2**32
    pre: len(custom_fan_mode) <= 2
    pre: len(custom_preset) <= 2
    pre: _pres_ok(mask)
    post: _
    """
    track.entered()
    mode = _sel(mask, 0, mode)
    target_temperature = _sel(mask, 1, target_temperature)
    target_temperature_low = _sel(mask, 2, target_temperature_low)
    target_temperature_high = _sel(mask, 3, target_temperature_high)
    fan_mode = _sel(mask, 4, fan_mode)
    swing_mode = _sel(mask, 5, swing_mode)
    custom_fan_mode = _sel(mask, 6, custom_fan_mode)
    preset = _sel(mask, 7, preset)
    custom_preset = _sel(mask, 8, custom_preset)
    target_humidity = _sel(mask, 9, target_humidity)
    cli, conn = _client(major, minor)
    with pbstub.install(PB.ClimateCommandRequest):
        cli.climate_command(key, mode=mode, target_temperature=target_temperature,
                            target_temperature_low=target_temperature_low,
                            target_temperature_high=target_temperature_high, fan_mode=fan_mode,
                            swing_mode=swing_mode, custom_fan_mode=custom_fan_mode, preset=preset,
                            custom_preset=custom_preset, target_humidity=target_humidity)
    if track.reached():
        return False
    req = _one(conn, PB.ClimateCommandRequest, "climate_command")
    if req is None:
        return False
    exp = {"key": key}
    _opt(exp, "mode", mode)
    _opt(exp, "target_temperature", target_temperature)
    _opt(exp, "target_temperature_low", target_temperature_low)
    _opt(exp, "target_temperature_high", target_temperature_high)
    _opt(exp, "fan_mode", fan_mode)
    _opt(exp, "swing_mode", swing_mode)
    _opt(exp, "custom_fan_mode", custom_fan_mode)
    if preset is not None:
        if _ge(major, minor, 1, 5):
            exp["has_preset"] = True
            exp["preset"] = preset
        else:
            exp["has_legacy_away"] = True
            exp["legacy_away"] = preset == PRESET_AWAY
    _opt(exp, "custom_preset", custom_preset)
    _opt(exp, "target_humidity", target_humidity)
    return _fields_ok(req, exp, "climate_command")


def h15_number(key: int, state: IeeeFloat) -> bool:
    """
    pre: 0 <= key < 2**32
    post: _
    """
    track.entered()
    cli, conn = _client(1, 10)
    with pbstub.install(PB.NumberCommandRequest):
        cli.number_command(key, state)
    if track.reached():
        return False
    req = _one(conn, PB.NumberCommandRequest, "number_command")
    if req is None:
        return False
    return _fields_ok(req, {"key": key, "state": state}, "number_command")


def h15_date(key: int, year: int, month: int, day: int) -> bool:
    """
    pre: 0 <= key < 2**32
    post: _
    """
    track.entered()
    cli, conn = _client(1, 10)
    with pbstub.install(PB.DateCommandRequest):
        cli.date_command(key, year, month, day)
    if track.reached():
        return False
    req = _one(conn, PB.DateCommandRequest, "date_command")
    if req is None:
        return False
    return _fields_ok(req, {"key": key, "year": year, "month": month, "day": day}, "date_command")


def h15_time(key: int, hour: int, minute: int, second: int) -> bool:
    """
    pre: 0 <= key < 2**32
    post: _
    """
    track.entered()
    cli, conn = _client(1, 10)
    with pbstub.install(PB.TimeCommandRequest):
        cli.time_command(key, hour, minute, second)
    if track.reached():
        return False
    req = _one(conn, PB.TimeCommandRequest, "time_command")
    if req is None:
        return False
    return _fields_ok(req, {"key": key, "hour": hour, "minute": minute, "second": second}, "time_command")


def h15_datetime(key: int, epoch_seconds: int) -> bool:
    """
    pre: 0 <= key < 2**32
    post: _
    """
    track.entered()
    cli, conn = _client(1, 10)
    with pbstub.install(PB.DateTimeCommandRequest):
        cli.datetime_command(key, epoch_seconds)
    if track.reached():
        return False
    req = _one(conn, PB.DateTimeCommandRequest, "datetime_command")
    if req is None:
        return False
    return _fields_ok(req, {"key": key, "epoch_seconds": epoch_seconds}, "datetime_command")


def h15_select(key: int, state: str) -> bool:
    """
    pre: 0 <= key < 2**32
    pre: len(state) <= 2
    post: _
    """
    track.entered()
    cli, conn = _client(1, 10)
    with pbstub.install(PB.SelectCommandRequest):
        cli.select_command(key, state)
    if track.reached():
        return False
    req = _one(conn, PB.SelectCommandRequest, "select_command")
    if req is None:
        return False
    return _fields_ok(req, {"key": key, "state": state}, "select_command")


def h15_siren(key: int, state: Optional[bool], tone: Optional[str], volume: Optional[IeeeFloat], duration: Optional[int]) -> bool:
    """
    pre: 0 <= key < 2**32
    pre: tone is None or len(tone) <= 2
    post: _
    """
    track.entered()
    cli, conn = _client(1, 10)
    with pbstub.install(PB.SirenCommandRequest):
        cli.siren_command(key, state=state, tone=tone, volume=volume, duration=duration)
    if track.reached():
        return False
    req = _one(conn, PB.SirenCommandRequest, "siren_command")
    if req is None:
        return False
    exp = {"key": key}
    _opt(exp, "state", state)
    _opt(exp, "tone", tone)
    _opt(exp, "volume", volume)
    _opt(exp, "duration", duration)
    return _fields_ok(req, exp, "siren_command")


def h15_button(key: int) -> bool:
    """
    pre: 0 <= key < 2**32
    post: _
    """
    track.entered()
    cli, conn = _client(1, 10)
    with pbstub.install(PB.ButtonCommandRequest):
        cli.button_command(key)
    if track.reached():
        return False
    req = _one(conn, PB.ButtonCommandRequest, "button_command")
    if req is None:
        return False
    return _fields_ok(req, {"key": key}, "button_command")


def h15_lock(key: int, command: int, code: Optional[str]) -> bool:
    """
    pre: 0 <= key < 2**32
    pre: code is None or len(code) <= 2
    post: _
    """
    track.entered()
    cli, conn = _client(1, 10)
    with pbstub.install(PB.LockCommandRequest):
        cli.lock_command(key, command, code=code)
    if track.reached():
        return False
    req = _one(conn, PB.LockCommandRequest, "lock_command")
    if req is None:
        return False
    exp = {"key": key, "command": command}
    if code is not None:
        exp["code"] = code
        # api.proto declares `bool has_code = 3` for this message
        if not same(req.has_code, True):
            if not track.fail("lock_command(key, command, code=s) writes code but does not set has_code",
                              "C15/lock-has-code-not-set"):
                return False
        return _fields_ok(req, exp, "lock_command", ("has_code",))
    return _fields_ok(req, exp, "lock_command")


def h15_valve(key: int, position: Optional[IeeeFloat], stop: bool) -> bool:
    """
    pre: 0 <= key < 2**32
    post: _
    """
    track.entered()
    cli, conn = _client(1, 10)
    with pbstub.install(PB.ValveCommandRequest):
        cli.valve_command(key, position=position, stop=stop)
    if track.reached():
        return False
    req = _one(conn, PB.ValveCommandRequest, "valve_command")
    if req is None:
        return False
    exp = {"key": key, "stop": stop}
    _opt(exp, "position", position)
    return _fields_ok(req, exp, "valve_command")


def h15_media_player(key: int, command: Optional[int], volume: Optional[IeeeFloat], media_url: Optional[str],
                     announcement: Optional[bool]) -> bool:
    """
    pre: 0 <= key < 2**32
    pre: media_url is None or len(media_url) <= 2
    post: _
    """
    track.entered()
    cli, conn = _client(1, 10)
    with pbstub.install(PB.MediaPlayerCommandRequest):
        cli.media_player_command(key, command=command, volume=volume, media_url=media_url, announcement=announcement)
    if track.reached():
        return False
    req = _one(conn, PB.MediaPlayerCommandRequest, "media_player_command")
    if req is None:
        return False
    exp = {"key": key}
    _opt(exp, "command", command)
    _opt(exp, "volume", volume)
    _opt(exp, "media_url", media_url)
    _opt(exp, "announcement", announcement)
    return _fields_ok(req, exp, "media_player_command")


def h15_text(key: int, state: str) -> bool:
    """
    pre: 0 <= key < 2**32
    pre: len(state) <= 2
    post: _
    """
    track.entered()
    cli, conn = _client(1, 10)
    with pbstub.install(PB.TextCommandRequest):
        cli.text_command(key, state)
    if track.reached():
        return False
    req = _one(conn, PB.TextCommandRequest, "text_command")
    if req is None:
        return False
    return _fields_ok(req, {"key": key, "state": state}, "text_command")


def h15_update(key: int, command: int) -> bool:
    """
    pre: 0 <= key < 2**32
    post: _
    """
    track.entered()
    cli, conn = _client(1, 10)
    with pbstub.install(PB.UpdateCommandRequest):
        cli.update_command(key, command)
    if track.reached():
        return False
    req = _one(conn, PB.UpdateCommandRequest, "update_command")
    if req is None:
        return False
    return _fields_ok(req, {"key": key, "command": command}, "update_command")


def h15_alarm(key: int, command: int, code: Optional[str]) -> bool:
    """
    pre: 0 <= key < 2**32
    pre: code is None or len(code) <= 2
    post: _
    """
    track.entered()
    cli, conn = _client(1, 10)
    with pbstub.install(PB.AlarmControlPanelCommandRequest):
        cli.alarm_control_panel_command(key, command, code=code)
    if track.reached():
        return False
    req = _one(conn, PB.AlarmControlPanelCommandRequest, "alarm_control_panel_command")
    if req is None:
        return False
    # api.proto declares no presence flag for this message: key, command, code only
    exp = {"key": key, "command": command}
    if code is not None:
        exp["code"] = code
    return _fields_ok(req, exp, "alarm_control_panel_command")


# ---- execute_service ------------------------------------------------------------------------

T_BOOL = PB.ServiceArgType.Value("SERVICE_ARG_TYPE_BOOL")
T_INT = PB.ServiceArgType.Value("SERVICE_ARG_TYPE_INT")
T_FLOAT = PB.ServiceArgType.Value("SERVICE_ARG_TYPE_FLOAT")
T_STRING = PB.ServiceArgType.Value("SERVICE_ARG_TYPE_STRING")
T_BOOL_ARRAY = PB.ServiceArgType.Value("SERVICE_ARG_TYPE_BOOL_ARRAY")
T_INT_ARRAY = PB.ServiceArgType.Value("SERVICE_ARG_TYPE_INT_ARRAY")
T_FLOAT_ARRAY = PB.ServiceArgType.Value("SERVICE_ARG_TYPE_FLOAT_ARRAY")
T_STRING_ARRAY = PB.ServiceArgType.Value("SERVICE_ARG_TYPE_STRING_ARRAY")
# the field of ExecuteServiceArgument that carries a value of each declared type (api.proto)
ARG_FIELD = {T_BOOL: "bool_", T_FLOAT: "float_", T_STRING: "string_", T_BOOL_ARRAY: "bool_array",
             T_INT_ARRAY: "int_array", T_FLOAT_ARRAY: "float_array", T_STRING_ARRAY: "string_array"}
NARGS = shard_int("NARGS", 1)
LISTLEN = shard_int("LISTLEN", 2)


def _pick(t: int, b, i, f, s, lb, li, lf, ls):
    return {T_BOOL: b, T_INT: i, T_FLOAT: f, T_STRING: s, T_BOOL_ARRAY: lb, T_INT_ARRAY: li,
            T_FLOAT_ARRAY: lf, T_STRING_ARRAY: ls}[t]


def h15_execute_service(key: int, major: int, minor: int, t0: int, t1: int,
                        b0: bool, i0: int, f0: IeeeFloat, s0: str, lb0: List[bool], li0: List[int], lf0: List[IeeeFloat], ls0: List[str],
                        b1: bool, i1: int, f1: IeeeFloat, s1: str, lb1: List[bool], li1: List[int], lf1: List[IeeeFloat], ls1: List[str]) -> bool:
    """
    pre: 0 <= key < 2**32 and 0 <= major < 2**32 and 0 <= minor < 2**32
    pre: 0 <= t0 <= 7 and 0 <= t1 <= 7
    pre: len(s0) <= 2 and len(s1) <= 2
    pre: len(lb0) <= LISTLEN and len(li0) <= LISTLEN and len(lf0) <= LISTLEN and len(ls0) <= LISTLEN
    pre: len(lb1) <= LISTLEN and len(li1) <= LISTLEN and len(lf1) <= LISTLEN and len(ls1) <= LISTLEN
    pre: _ver_ok(major, minor, 1, 3)
    post: _
    """
    track.entered()
    c0 = concretize(t0, 7)
    c1 = concretize(t1, 7)
    types = [c0, c1][:NARGS]
    vals = [_pick(c0, b0, i0, f0, s0, lb0, li0, lf0, ls0), _pick(c1, b1, i1, f1, s1, lb1, li1, lf1, ls1)][:NARGS]
    names = ["a0", "a1"][:NARGS]
    with NoTracing():
        sargs = [UserServiceArg(name=n, type=UserServiceArgType(t)) for n, t in zip(names, types)]
    service = UserService(name="svc", key=key, args=sargs)
    data = {n: v for n, v in zip(names, vals)}
    cli, conn = _client(major, minor)
    with pbstub.install(PB.ExecuteServiceRequest, PB.ExecuteServiceArgument):
        cli.execute_service(service, data)
    if track.reached():
        return False
    req = _one(conn, PB.ExecuteServiceRequest, "execute_service")
    if req is None:
        return False
    if not same(req.key, key):
        return track.fail("execute_service: key differs from service.key")
    rargs = req.args
    if len(rargs) != len(types):
        return track.fail("execute_service: number of arguments differs")
    for a, t, v in zip(rargs, types, vals):
        if getattr(type(a), "_pb", None) is not PB.ExecuteServiceArgument:
            return track.fail("execute_service: argument is of another message class")
        if t == T_INT:
            fld = "int_" if _ge(major, minor, 1, 3) else "legacy_int"
        else:
            fld = ARG_FIELD[t]
        if not _fields_ok(a, {fld: v}, "execute_service argument of type " + str(t)):
            return False
    return True


# ---------------------------------------------------------------------------------------------

_SIMPLE = [
    ("h15_fan", "fan_command: all 64 subsets of 6 optionals"),
    ("h15_switch", "switch_command"),
    ("h15_number", "number_command"),
    ("h15_date", "date_command"),
    ("h15_time", "time_command"),
    ("h15_datetime", "datetime_command"),
    ("h15_select", "select_command"),
    ("h15_siren", "siren_command: all 16 subsets"),
    ("h15_button", "button_command"),
    ("h15_lock", "lock_command (has_code: known finding)"),
    ("h15_valve", "valve_command"),
    ("h15_media_player", "media_player_command: all 16 subsets"),
    ("h15_text", "text_command"),
    ("h15_update", "update_command"),
    ("h15_alarm", "alarm_control_panel_command"),
]


def shards(tier: str) -> list:
    out = []
    for leg in (0, 1):
        out.append({"fn": "h15_cover", "env": {"LEGACY": leg}, "cond_timeout": 150,
                    "desc": "cover_command, API version " + ("< 1.1 (legacy)" if leg else ">= 1.1") + ", symbolic (major, minor)"})
    for fn, d in _SIMPLE:
        out.append({"fn": fn, "env": {}, "cond_timeout": 150, "desc": d})
    out.append({"fn": "h15_light_durations", "env": {}, "cond_timeout": 150,
                "desc": "light_command: transition_length / flash_length as real-modelled float seconds -> nearest whole millisecond"})
    nfix = 4
    for b in range(1 << nfix):
        out.append({"fn": "h15_light", "env": {"BITS": b, "NFIX": nfix}, "cond_timeout": 300,
                    "desc": f"light_command: presence of the first {nfix} optionals = {b:04b} (LSB first), all 256 subsets of the other 8"})
    nfix = 3
    for b in range(1 << nfix):
        out.append({"fn": "h15_climate", "env": {"BITS": b, "NFIX": nfix}, "cond_timeout": 300,
                    "desc": f"climate_command: presence of the first {nfix} optionals = {b:03b}, all 128 subsets of the other 7, symbolic API version (both sides of 1.5)"})
    for leg in (0, 1):
        out.append({"fn": "h15_execute_service", "env": {"NARGS": 1, "LEGACY": leg, "LISTLEN": 2 if tier == "quick" else 3}, "cond_timeout": 400,
                    "desc": "execute_service with 1 argument of every type, API " + ("< 1.3" if leg else ">= 1.3")})
    if tier == "quick":
        out.append({"fn": "h15_execute_service", "env": {"NARGS": 2, "LISTLEN": 2}, "cond_timeout": 400,
                    "desc": "execute_service with 2 arguments, all 64 type pairs, symbolic API version"})
    else:
        for leg in (0, 1):
            out.append({"fn": "h15_execute_service", "env": {"NARGS": 2, "LEGACY": leg, "LISTLEN": 3}, "cond_timeout": 1200,
                        "desc": "execute_service with 2 arguments, all 64 type pairs, lists <= 3, API " + ("< 1.3" if leg else ">= 1.3")})
    return out


BOUNDS = {
    "quick": {
        "all commands": "key in [0, 2^32); EVERY subset of the optional arguments of every command (fan 64, siren 16, media_player 16, "
                        "climate 1024, light 4096, cover/valve/lock/alarm all); values: symbolic bool / unbounded int (enum-typed "
                        "arguments are symbolic ints: every member value and every other int) / str of length <= 2 / one symbolic "
                        "IEEE-754 double per float argument (every double incl. +-0.0, subnormals, +-inf, NaN; passed through untouched)",
        "api version": "cover, climate, execute_service: (major, minor) symbolic in [0, 2^32)^2, both sides of 1.1 / 1.5 / 1.3",
        "durations": "h15_light: transition_length/flash_length symbolic INT seconds in [0, 4294967] (exact: ms == s*1000) together with "
                     "all other arguments; h15_light_durations: float seconds in [0, 4294967.0] modelled as z3 Reals (every real "
                     "number, not only doubles), oracle |ms - 1000 s| <= 1/2",
        "execute_service": "1 and 2 arguments, each of every one of the 8 declared types, list values of length <= 2 (elements of string lists: symbolic str of any length)",
    },
    "thorough": {"as quick, plus": "execute_service list values of length <= 3 with 2 arguments on each side of 1.3"},
}
OUTSIDE = [
    "str values longer than 2 characters; list-valued service arguments longer than the stated bound; services with more than 2 arguments",
    "durations that are negative, NaN or infinite or exceed the uint32 millisecond field (no encoding is stated for them)",
    "IEEE-754 rounding of seconds*1000 (the duration claim is at real-arithmetic level: z3 cannot decide 64-bit FP multiplication + round in useful time, measured > 2 s per query)",
    "the protobuf byte encoding of the request (the request class is a pbstub double; C13/C02 cover ids and framing)",
]
ASSUMPTIONS = [
    "pbstub doubles: named fields with descriptor defaults, AttributeError on unknown field, None keyword ignored (as protobuf does)",
    "oracle compares the EFFECTIVE value of every field declared by the descriptor (assigned value, else default) with the expectation -- assigning a field its default is indistinguishable on the wire and is not flagged",
    "legacy cover encoding (API < 1.1): stop -> STOP, else position == 1.0 -> OPEN, else position == 0.0 -> CLOSE, else no legacy command; when stop and position are both supplied STOP is demanded (a cover that is told to stop must not keep driving)",
    "CrossHair's verdict cap for real-modelled floats is lifted for h15_light_durations only (vf/symtypes.py RealFloat): its claim is stated over the reals",
    "vf/symtypes.py IeeeFloat: one z3 Float64 variable per float argument (CrossHair PreciseIeeeSymbolicFloat)",
    "known finding C15/lock-has-code-not-set is suppressed in h15_lock (has_code only); every other field of that request is still checked",
]
EXPLANATION = ("C15: each harness calls the real APIClient command method on a recording connection with a pbstub request class; oracle = every "
               "declared field of the one request sent has exactly the expected effective value (key, has_x/x for supplied optionals incl. "
               "falsy values, rgb split, seconds->ms, legacy encodings below the version thresholds, defaults elsewhere).")
