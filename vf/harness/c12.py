"""C12 -- dispatch exactly once in order; unknown types ignored; peer requests answered."""
from __future__ import annotations

import aioesphomeapi.connection as CN
from aioesphomeapi import api_pb2 as pb
from aioesphomeapi.connection import ConnectionState
from aioesphomeapi.core import ProtocolAPIError
from google.protobuf.descriptor import FieldDescriptor as FD

from vf import pbstub, track
from vf.harness.common import Sub, SymTuple, base_loop, concretize, connected_conn, same, shard_int

PROPERTY = "C12"

_REAL_TABLE = tuple(CN.MESSAGE_NUMBER_TO_PROTO)
NIDS = len(_REAL_TABLE)


def _valid_payload(klass) -> bytes:
    m = klass()
    for f in klass.DESCRIPTOR.fields:
        if f.is_repeated or f.type == FD.TYPE_MESSAGE:
            continue
        if f.type in (FD.TYPE_STRING,):
            setattr(m, f.name, "ab")
        elif f.type == FD.TYPE_BYTES:
            setattr(m, f.name, b"ab")
        elif f.type == FD.TYPE_BOOL:
            setattr(m, f.name, True)
        elif f.type in (FD.TYPE_FLOAT, FD.TYPE_DOUBLE):
            setattr(m, f.name, 1.5)
        else:
            setattr(m, f.name, 1)
        return m.SerializeToString()
    return b""  # message without scalar fields: only the empty payload exists


def _invalid_payload(klass) -> bytes:
    for cand in (b"\x0a\xff", b"\xff\xff\xff", b"\x0d\x01", b"\x08"):
        try:
            klass().MergeFromString(cand)
        except Exception:  # noqa: BLE001
            return cand
    raise RuntimeError(f"no undecodable payload found for {klass.__name__}")


VALID = [_valid_payload(k) for k in _REAL_TABLE]
INVALID = [_invalid_payload(k) for k in _REAL_TABLE]
INTERNAL = {pb.DisconnectRequest, pb.PingRequest, pb.GetTimeRequest}
_NON_INTERNAL = tuple(k for k in _REAL_TABLE if k not in INTERNAL)
TBITS = shard_int("TBITS", 64)
PKIND = shard_int("PKIND", 0)


class _Env:
    """connection in CONNECTED with the symbolic-index model of the id table installed."""

    def __init__(self):
        self.old = CN.MESSAGE_NUMBER_TO_PROTO
        CN.MESSAGE_NUMBER_TO_PROTO = SymTuple(self.old)
        self.conn, self.helper, self.stops = connected_conn()

    def close(self):
        CN.MESSAGE_NUMBER_TO_PROTO = self.old


def h12a_step(t: int) -> bool:
    """
    pre: 0 <= t < 2**TBITS
    post: _
    """
    track.entered()
    env = _Env()
    try:
        conn, helper = env.conn, env.helper
        calls = []
        # a subscriber on every message type (internal request types excluded: they have their own handlers)
        conn._add_message_callback_without_remove(lambda m: calls.append((type(m), m)), _NON_INTERNAL)
        # keep-alive bookkeeping in a recognisable state
        conn._send_pending_ping = True
        sentinel = conn._loop.call_at(10**9, lambda: None)
        conn._pong_timer = sentinel
        defined = 1 <= t <= NIDS
        if defined:
            idx = concretize(t - 1, NIDS - 1)
            klass = _REAL_TABLE[idx]
            payload = b"" if PKIND == 0 else (VALID[idx] if PKIND == 1 else INVALID[idx])
        else:
            klass = None
            payload = b"" if PKIND == 0 else (b"\x08\x01" if PKIND == 1 else b"\x0a\xff")
        raised = None
        CN.time = _FakeTimeModule(1700000000)  # GetTimeRequest reads the clock: keep it out of the path
        try:
            conn.process_packet(t, payload)
        except Exception as e:  # noqa: BLE001
            raised = e
        finally:
            CN.time = _REAL_TIME
        if track.reached():
            return False
        if not defined:
            sig = "C12/type-0-treated-as-last-id" if t == 0 else None
            if raised is not None:
                return track.fail(f"undefined type {t}: exception {type(raised).__name__}", sig)
            if calls:
                return track.fail(f"undefined type {t}: delivered to a subscriber of {calls[0][0].__name__}", sig)
            if helper.writes:
                return track.fail(f"undefined type {t}: something was written", sig)
            if conn._send_pending_ping is not True or conn._pong_timer is not sentinel or sentinel.cancelled():
                return track.fail(f"undefined type {t}: keep-alive state changed", sig)
            if conn.connection_state is not ConnectionState.CONNECTED or helper.closed or env.stops:
                return track.fail(f"undefined type {t}: connection state changed", sig)
            return True
        if PKIND == 2:
            # undecodable payload of a known type closes the connection with a protocol error
            if not isinstance(conn._fatal_exception, ProtocolAPIError):
                return track.fail(f"undecodable payload of {klass.__name__}: no ProtocolAPIError recorded")
            if conn.connection_state is not ConnectionState.CLOSED or not helper.closed:
                return track.fail(f"undecodable payload of {klass.__name__}: connection not closed")
            if calls:
                return track.fail("undecodable payload was delivered to a subscriber")
            if env.stops != [False]:
                return track.fail(f"undecodable payload: stop callback calls {env.stops}")
            return True
        if raised is not None:
            return track.fail(f"well-formed message of {klass.__name__} raised {type(raised).__name__}: {raised}")
        if klass in INTERNAL:
            if calls:
                return track.fail("internal request delivered to a foreign subscriber")
            return True
        if len(calls) != 1 or calls[0][0] is not klass or type(calls[0][1]) is not klass:
            return track.fail(f"message of {klass.__name__} delivered {len(calls)} times / to the wrong subscriber")
        ref = klass()
        ref.MergeFromString(payload)
        if calls[0][1] != ref:
            return track.fail(f"delivered {klass.__name__} differs from the payload's decoding")
        if helper.writes:
            return track.fail("an ordinary message caused a write")
        if conn.connection_state is not ConnectionState.CONNECTED:
            return track.fail("an ordinary message changed the connection state")
        return True
    finally:
        env.close()


# ---- subscriber scripts: subscribe/unsubscribe from inside a callback
S_NOOP, S_UNSUB_SELF, S_UNSUB_NEXT, S_SUB_NEW = range(4)


def h12d_scripts(s0: int, s1: int, s2: int, nmsg: int, key0: int, key1: int, nsub: int = 3) -> bool:
    """
    pre: 0 <= s0 < 4 and 0 <= s1 < 4 and 0 <= s2 < 4
    pre: 1 <= nsub <= 3
    pre: 1 <= nmsg <= 2
    pre: 0 <= key0 < 2**32 and 0 <= key1 < 2**32
    post: _
    """
    track.entered()
    Stub = pbstub.make_stub(pb.SensorStateResponse)
    with pbstub.install(pb.SensorStateResponse):
        conn, helper, stops = connected_conn()
        ns = concretize(nsub, 3)  # number of subscribers registered at the start (a single one included)
        scripts = [concretize(s0, 3), concretize(s1, 3), concretize(s2, 3)]
        n = concretize(nmsg, 2)
        logs = [[], [], []]
        new_logs = []
        sent = []
        removers = [None, None, None]
        registered = [i < ns for i in range(3)]

        def make(i):
            def cb(msg):
                logs[i].append(msg.key)
                sc = scripts[i]
                if sc == S_UNSUB_SELF:
                    removers[i]()
                    registered[i] = False
                elif sc == S_UNSUB_NEXT:
                    j = (i + 1) % ns
                    removers[j]()
                    registered[j] = False
                elif sc == S_SUB_NEW:
                    lst = []
                    new_logs.append((len(sent), lst))
                    conn.add_message_callback(Sub(3 + len(new_logs), lambda m, _l=lst: _l.append(m.key)), (Stub,))
            return cb

        for i in range(ns):
            removers[i] = conn.add_message_callback(Sub(i, make(i)), (Stub,))
        keys = [key0, key1][:n]
        expect = [[], [], []]
        for k in keys:
            at_entry = list(registered)
            sent.append(k)
            conn.process_packet(25, Stub(key=k).SerializeToString())
            for i in range(3):
                if at_entry[i]:
                    expect[i].append(k)
        if track.reached():
            return False
        for i in range(3):
            if len(logs[i]) != len(expect[i]):
                return track.fail(f"subscriber {i} (script {scripts[i]}) got {len(logs[i])} deliveries, expected {len(expect[i])}; scripts={scripts}")
            for a, b in zip(logs[i], expect[i]):
                if not same(a, b):
                    return track.fail(f"subscriber {i} got a different message value")
        for born, lst in new_logs:
            # a subscriber added while message number `born` was being dispatched sees only later ones
            exp = keys[born:]
            if len(lst) != len(exp):
                return track.fail(f"subscriber added during dispatch of message {born} got {len(lst)} deliveries, expected {len(exp)}")
        return True


# ---- peer requests are answered
def h12b_replies(which: int, now_s: int) -> bool:
    """
    pre: 0 <= which <= 2
    pre: 0 <= now_s < 2**40
    post: _
    """
    track.entered()
    Stub = pbstub.make_stub(pb.GetTimeResponse)
    old_time = CN.time.time
    with pbstub.install(pb.GetTimeResponse):
        conn, helper, stops = connected_conn()
        w = concretize(which, 2)
        # the clock stub returns an arbitrary whole-second instant; int() discards any fraction anyway
        CN.time = _FakeTimeModule(now_s)
        try:
            tid = (7, 36, 5)[w]
            conn.process_packet(tid, b"")
        finally:
            CN.time = _REAL_TIME
        if track.reached():
            return False
        if len(helper.writes) != 1 or len(helper.writes[0]) != 1:
            return track.fail(f"request {tid}: expected exactly one response packet, writes={helper.writes}")
        rt, rp = helper.writes[0][0]
        if w == 0:
            if rt != 8 or rp != pb.PingResponse().SerializeToString():
                return track.fail("PingRequest not answered with a PingResponse")
            return conn.connection_state is ConnectionState.CONNECTED or track.fail("ping changed the state")
        if w == 1:
            if rt != 37:
                return track.fail("GetTimeRequest not answered with a GetTimeResponse")
            m = Stub()
            m.MergeFromString(rp)
            if m.epoch_seconds != now_s:
                return track.fail("GetTimeResponse.epoch_seconds != int(now)")
            return True
        if rt != 6 or rp != pb.DisconnectResponse().SerializeToString():
            return track.fail("DisconnectRequest not answered with a DisconnectResponse")
        if conn.connection_state is not ConnectionState.CLOSED or not helper.closed:
            return track.fail("DisconnectRequest did not close the connection")
        if stops != [True]:
            return track.fail(f"DisconnectRequest: stop callback calls {stops}, expected [True] (expected close)")
        return True


_REAL_TIME = CN.time


class _FakeTimeModule:
    def __init__(self, now):
        self._now = now

    def time(self):
        return self._now


# ---- order across several messages and subscribers
def h12c_order(k0: int, k1: int, k2: int, k3: int, v0: int, v1: int, v2: int, v3: int) -> bool:
    """
    pre: 0 <= k0 <= 2 and 0 <= k1 <= 2 and 0 <= k2 <= 2 and 0 <= k3 <= 2
    pre: 0 <= v0 < 2**32 and 0 <= v1 < 2**32 and 0 <= v2 < 2**32 and 0 <= v3 < 2**32
    post: _
    """
    track.entered()
    A = pbstub.make_stub(pb.SensorStateResponse)
    B = pbstub.make_stub(pb.SwitchStateResponse)
    n = shard_int("NMSG", 3)
    with pbstub.install(pb.SensorStateResponse, pb.SwitchStateResponse):
        conn, helper, stops = connected_conn()
        la, lab, lb = [], [], []
        conn.add_message_callback(lambda m: la.append(("A", m.key)), (A,))
        conn.add_message_callback(lambda m: lab.append((type(m) is A and "A" or "B", m.key)), (A, B))
        conn.add_message_callback(lambda m: lb.append(("B", m.key)), (B,))
        kinds = [concretize(x, 2) for x in (k0, k1, k2, k3)][:n]
        vals = [v0, v1, v2, v3][:n]
        stream = []
        for kd, v in zip(kinds, vals):
            if kd == 0:
                stream.append(("A", v))
                conn.process_packet(25, A(key=v).SerializeToString())
            elif kd == 1:
                stream.append(("B", v))
                conn.process_packet(26, B(key=v).SerializeToString())
            else:
                conn.process_packet(200 + v, b"")  # undefined type in between
        if track.reached():
            return False
        ea = [x for x in stream if x[0] == "A"]
        eb = [x for x in stream if x[0] == "B"]
        for got, exp, nm in ((la, ea, "A"), (lb, eb, "B"), (lab, stream, "A+B")):
            if len(got) != len(exp):
                return track.fail(f"subscriber {nm}: {len(got)} deliveries, expected {len(exp)}")
            for g, e in zip(got, exp):
                if g[0] != e[0] or not same(g[1], e[1]):
                    return track.fail(f"subscriber {nm}: deliveries out of arrival order / altered")
        return True


# ---- peer requests are answered at every point of the session, also while hello/login is pending
def h12e_during_login(kind: int, pos: int, chunking: int, login: bool) -> bool:
    """
    pre: 0 <= kind <= 2
    pre: 0 <= pos <= 3
    pre: 0 <= chunking <= 2
    post: _
    """
    from vf import refcodec as R
    from vf import scen

    track.entered()
    k = concretize(kind, 2)
    ps = concretize(pos, 3)
    ch = concretize(chunking, 2)
    w = scen.World()
    try:
        conn = w.new_connection()
        w.connect_mode = "ok"

        async def full():
            await conn.start_connection()
            await conn.finish_connection(login=login)

        t = w.task(full())
        w.loop.run_ready()  # hello (and connect) request written, responses pending
        req = (scen.PING_REQ, scen.frame(pb.GetTimeRequest()), scen.DISC_REQ)[k]
        reply_id = (8, 37, 6)[k]
        seq = [scen.HELLO_OK] + ([scen.CONNECT_OK] if login else [])
        at = min(ps, len(seq))  # 0: before the hello response ... len(seq): right after the last response
        seq = seq[:at] + [req] + seq[at:]
        if ch == 0:
            w.feed(b"".join(seq))
        else:
            for fr in seq:
                if not w.feed(fr):
                    break
                if ch == 2:
                    w.loop.run_ready()
        w.loop.run_ready()
        if track.reached():
            return False
        frames = R.dec_plain_stream_strict(w.transport.written())
        if frames is None:
            return track.fail("written bytes are not well-formed frames")
        ids = [tid for tid, _p in frames]
        if ids.count(reply_id) != 1:
            return track.fail(f"peer request {('ping', 'time', 'disconnect')[k]} at position {at} (chunking {ch}, login={login}) was answered {ids.count(reply_id)} times; written ids={ids}")
        if k == 2:
            if conn.connection_state is not ConnectionState.CLOSED:
                return track.fail("DisconnectRequest during hello/login did not close the connection")
            if w.stops and w.stops != [True]:
                return track.fail(f"DisconnectRequest: stop callback calls {w.stops}")
            if ids[-1] != 6:
                return track.fail("something was written after the DisconnectResponse")
        return True
    finally:
        w.close()


def shards(tier: str) -> list:
    out = []
    out.append({"fn": "h12e_during_login", "env": {}, "cond_timeout": 300, "desc": "ping / time / disconnect request arriving before, between and right after the hello and login responses (same chunk, same turn, separate turns)"})
    for pk in (0, 1, 2):
        out.append({"fn": "h12a_step", "env": {"PKIND": pk, "TBITS": 64}, "cond_timeout": 400,
                    "desc": f"process_packet for every type number in [0, 2^64), payload kind {('empty', 'valid non-empty', 'undecodable')[pk]}"})
    out.append({"fn": "h12d_scripts", "env": {}, "cond_timeout": 400, "desc": "3 subscribers with subscribe/unsubscribe scripts, 1-2 messages"})
    out.append({"fn": "h12b_replies", "env": {}, "cond_timeout": 200, "desc": "ping / time / disconnect requests are answered"})
    for n in ((2, 3) if tier == "quick" else (2, 3, 4)):
        out.append({"fn": "h12c_order", "env": {"NMSG": n}, "cond_timeout": 600, "desc": f"{n} mixed messages, 3 subscribers, per-subscriber arrival order"})
    return out


BOUNDS = {
    "quick": "type numbers: all of [0, 2^64); payloads: empty / one valid non-empty / one undecodable per type; 3 scripted subscribers x 1-2 messages; sequences of 2-3 messages over 2 types + undefined types",
    "thorough": "as quick plus sequences of 4 messages",
}
OUTSIDE = ["arbitrary payload bytes (protobuf decoding is C code: one valid and one undecodable representative per type)", "more than 3 subscribers per type"]
ASSUMPTIONS = [
    "SymTuple models tuple.__getitem__ (negative wrap, IndexError) so that the type number stays symbolic; C13 ties the table contents to api.proto",
    "pbstub doubles for messages whose field values are kept symbolic",
    "time.time is replaced by a stub returning a symbolic instant",
]
EXPLANATION = "C12: one-step oracle on APIConnection.process_packet for every type number, scripted subscribers, replies to peer requests, per-subscriber order."
