"""C09 -- operations end in bounded time with a classified error; first cause wins."""
from __future__ import annotations

import asyncio

from aioesphomeapi.core import (
    APIConnectionError,
    HandshakeAPIError,
    PingFailedAPIError,
    ProtocolAPIError,
    RequiresEncryptionAPIError,
    SocketClosedAPIError,
    TimeoutAPIError,
)

from vf import engine as E
from vf import track
from vf.engine import Scenario
from vf.harness.common import concretize, shard_int
from vf.scen import CLOSED

PROPERTY = "C09"
NEEDS_NOISE_PATCHES = True

ALPHA = [E.DRAIN, E.TURN, E.TIMER, E.FINISH, E.DISCONNECT, E.FORCE, E.CANCEL, E.CONNECT_OK, E.CONNECT_ERR,
         E.D_HELLO, E.D_CONNECT, E.D_GARBAGE, E.D_NOISEMARK, E.D_DISCRESP, E.D_MSG, E.D_BADPAYLOAD, E.EOF, E.RESET,
         E.WRITEFAIL, E.FLUSH, E.REQUEST, E.D_DEVINFO, E.RESOLVE_OK, E.RESOLVE_ERR, E.CANCEL_REQ, E.LONGWAIT, E.D_CONNECT_BAD]
# quick tier: the events without which no listed fault class / operation can be exercised
ALPHA_Q = [E.DRAIN, E.TIMER, E.DISCONNECT, E.FORCE, E.CANCEL, E.CONNECT_OK, E.CONNECT_ERR, E.D_HELLO, E.D_CONNECT, E.D_GARBAGE,
           E.D_NOISEMARK, E.D_BADPAYLOAD, E.EOF, E.RESET, E.WRITEFAIL, E.REQUEST, E.D_DEVINFO, E.CANCEL_REQ, E.RESOLVE_ERR]
ALPHA_FULL = ALPHA
ALPHA_QR = ALPHA_Q + [E.D_MSG]  # quick alphabet of the raising-subscriber shards (needs the state message)
if shard_int("QA", 0) == 2:
    ALPHA = ALPHA_QR
elif shard_int("QA", 0):
    ALPHA = ALPHA_Q
NA = len(ALPHA)
SH0 = shard_int("SH0", 0)
SH1 = shard_int("SH1", -1)  # thorough tier: the second event is fixed per shard as well
STAGE = shard_int("STAGE", 0)
NOISE = shard_int("NOISE", 0)
RAISE = shard_int("RAISE", 0)  # 1: the application's state subscriber raises when a state message arrives
NADDR = shard_int("NADDR", 1)  # address groups tried one after the other by the TCP connect
PSK = "QRTIErOb/fcE9Ukd/5qA3RGYMn0Y+p06U58SCtOXvPc="

# documented time bounds (seconds) per operation, from the constants the statement cites
BOUND = {"start": 30.0 + 60.0 * NADDR, "finish": 30.0 + 30.0, "request": 10.0, "disconnect": 5.0 + 10.0}

FRAME_CAUSE = {E.D_GARBAGE: ProtocolAPIError, E.D_BADPAYLOAD: ProtocolAPIError, E.D_NOISEMARK: RequiresEncryptionAPIError}


class _FirstCause:
    """reference: class of the first fatal cause, from the events alone (None = unknown / not specific)."""

    def __init__(self, s: Scenario):
        self.s = s
        self.cls = None
        self.known = False
        self.waiters = []
        self.disc_at = None
        self.disc_waiters = []
        self.cause_time = None

    def note(self, cls) -> None:
        if not self.known and self.s.conn.connection_state is not CLOSED:
            self.known = True
            self.cls = cls
            # the calls that are waiting on the connection when the first cause strikes
            self.waiters = [t for k, t, i in self.s.tasks if k in ("finish", "request") and i.get("started") and not t.done()]

    def before_chunk(self, evs) -> None:
        if NOISE:
            # a plaintext frame on a noise connection: wrong marker byte (our frames start with 0x00/0x05);
            # the noise marker 0x01 0x00 0x00 is an empty noise frame (empty server hello)
            for ev in evs:
                self.note(HandshakeAPIError if ev == E.D_NOISEMARK else ProtocolAPIError)
                return
            return
        for ev in evs:
            if ev == E.D_MSG and RAISE:
                self.note(None)  # a raw exception out of data_received: only "a connection error" is required
                return
            if ev in FRAME_CAUSE:
                self.note(FRAME_CAUSE[ev])
                return
            if ev == E.D_CONNECT_BAD or ev == E.D_DISCREQ:
                self.note(None)
                return

    def before_event(self, ev) -> None:
        if ev == E.EOF:
            self.note(SocketClosedAPIError)
        elif ev == E.DISCONNECT and self._finish_waiting() and self.disc_at is None and not self.known:
            # disconnect() first waits up to 5 s for the pending connect phase; if that does not finish,
            # the timeout of that wait is the first fatal cause (the statement's constant: 5 s)
            self.disc_at = self.s.loop.time()
            self.disc_waiters = [t for k, t, i in self.s.tasks if k == "finish" and i.get("started") and not t.done()]
        elif ev in (E.RESET, E.FORCE, E.DISCONNECT, E.CANCEL, E.CONNECT_ERR, E.RESOLVE_ERR, E.WRITEFAIL):
            # these either carry no single specified class or their effect depends on timing
            self.note(None)

    def _finish_waiting(self) -> bool:
        return any(k == "finish" and i.get("started") and not t.done() for k, t, i in self.s.tasks)

    def after_event(self, ev) -> None:
        if self.known or self.disc_at is None:
            return
        if self.s.loop.time() >= self.disc_at + 5.0:
            # no other cause was noted in between: the disconnect's wait for the connect phase timed out
            # (the connection may already be closed again by the time we look -- without a completed
            # handshake disconnect() closes right after the timeout)
            self.known = True
            self.cls = TimeoutAPIError
            self.waiters = list(self.disc_waiters)
            self.cause_time = self.disc_at + 5.0
            return
        if self.s.conn.connection_state is CLOSED or not self._finish_waiting():
            self.disc_at = None
            if self.s.conn.connection_state is CLOSED:
                self.note(None)


def _run(events: list) -> bool:
    track.entered()
    kw = {"noise_psk": PSK} if NOISE else {}
    if NADDR > 1:
        kw["addresses"] = ["10.0.0.%d" % (i + 1) for i in range(NADDR)]
    s = Scenario(STAGE, world_kw=kw)
    try:
        s.probe_raise = bool(RAISE)
        fc = _FirstCause(s)
        for a in events:
            ev = ALPHA[concretize(a, NA - 1)]
            if ev not in E.DEVICE_BYTES and s.pending_evs:
                fc.before_chunk(s.pending_evs)
                s.flush()
                if ev == E.FLUSH:
                    s.trace.append("FLUSH")
                    continue
            fc.before_event(ev)
            if not s.apply(ev):
                return track.pruned()  # event not enabled here
            fc.after_event(ev)
        if s.pending_evs:
            fc.before_chunk(s.pending_evs)
        finished = s.run_out()
        if track.reached():
            return False
        if not finished:
            pend = [k for k, t, _ in s.tasks if not t.done()]
            if s.loop.next_timer() is None:
                return track.fail(f"deadlock: {pend} pending, nothing ready and no timer armed; trace={s.trace}")
            return track.fail(f"{pend} still pending after the step budget; trace={s.trace}")
        for kind, t, info in s.tasks:
            if "t_end" not in info:
                continue  # cancelled before its coroutine ever ran: nothing was awaited
            dur = info["t_end"] - info["t_start"]
            if dur > BOUND[kind]:
                return track.fail(f"{kind} took {dur}s of virtual time, documented bound {BOUND[kind]}s; trace={s.trace}")
            if t.cancelled():
                if id(t) not in s.cancelled_by_harness:
                    return track.fail(f"{kind} ended cancelled although the caller did not cancel it; trace={s.trace}")
                continue
            exc = t.exception()
            if exc is None:
                continue
            if isinstance(exc, RuntimeError) and kind in ("start", "finish") and "Connection" in str(exc) and "state" in str(exc):
                continue  # documented usage error of a phase called in the wrong state (not a fault outcome)
            if not isinstance(exc, APIConnectionError):
                return track.fail(f"{kind} raised {type(exc).__name__}: {exc} -- not from the connection-error hierarchy; trace={s.trace}")
            if fc.known and fc.cls is not None and any(t is x for x in fc.waiters) and id(t) not in s.cancelled_by_harness:
                if fc.cause_time is not None and info["t_end"] < fc.cause_time:
                    continue  # the call had ended (for its own reason) before the cause struck
                if not isinstance(exc, fc.cls):
                    return track.fail(f"{kind} observed {type(exc).__name__} but the first fatal cause was {fc.cls.__name__}; trace={s.trace}")
        if s.w.loop.exc:
            # exceptions that escaped into the event loop (callbacks / data_received) other than protocol decode errors
            for ctx in s.w.loop.exc:
                e = ctx.get("exception")
                if e is not None and not isinstance(e, (APIConnectionError, OSError)) and "data_received" not in str(ctx.get("message", "")) and not RAISE:
                    return track.fail(f"exception escaped into the event loop: {type(e).__name__}: {e}; trace={s.trace}")
        return True
    finally:
        s.close()


def h09_3(a0: int, a1: int, a2: int) -> bool:
    """
    pre: a0 == SH0
    pre: 0 <= a1 < NA and 0 <= a2 < NA
    post: _
    """
    return _run([a0, a1, a2])


def h09_4(a0: int, a1: int, a2: int, a3: int) -> bool:
    """
    pre: a0 == SH0
    pre: 0 <= a1 < NA and 0 <= a2 < NA and 0 <= a3 < NA
    pre: SH1 < 0 or a1 == SH1
    post: _
    """
    return _run([a0, a1, a2, a3])


def _enabled_first(stage: int, noise: int, naddr: int = 1, alpha=None) -> list:
    out = []
    for i, ev in enumerate(alpha or ALPHA_FULL):
        kw = {"noise_psk": PSK} if noise else {}
        if naddr > 1:
            kw["addresses"] = ["10.0.0.%d" % (k + 1) for k in range(naddr)]
        s = Scenario(stage, world_kw=kw)
        try:
            if s.apply(ev):
                out.append(i)
        finally:
            s.close()
    return out


def _mk(stage: int, noise: int, naddr: int):
    def mk():
        kw = {"noise_psk": PSK} if noise else {}
        if naddr > 1:
            kw["addresses"] = ["10.0.0.%d" % (k + 1) for k in range(naddr)]
        return Scenario(stage, world_kw=kw)
    return mk


def shards(tier: str) -> list:
    out = []
    quick = tier == "quick"
    combos = [(st, 0, 1) for st in (E.ST_RESOLVING, E.ST_RESOLVING_MDNS, E.ST_CONNECTING, E.ST_OPENED, E.ST_HELLO_SENT, E.ST_CONNECTED, E.ST_DISCONNECTING)]
    combos += [(E.ST_HELLO_SENT, 1, 1)]  # noise: finish parked on the handshake
    combos += [(E.ST_CONNECTING, 0, 2)]  # two address groups: the TCP connect may take 2 x 60 s
    alpha = ALPHA_Q if quick else ALPHA_FULL
    for st, nz, na in combos:
        for i in _enabled_first(st, nz, na, alpha):
            out.append({"fn": "h09_3", "env": {"STAGE": st, "SH0": i, "NOISE": nz, "NADDR": na, "QA": 1 if quick else 0}, "cond_timeout": 600 if quick else 1500, "path_timeout": 60,
                        "desc": f"stage {E.STAGE_NAMES[st]}{' (noise)' if nz else ''}{' (2 address groups)' if na > 1 else ''}, first event {E.NAMES[alpha[i]]}, then 2 symbolic events ({len(alpha)}-event alphabet); then time runs until every call ended"})
    ralpha = ALPHA_QR if quick else ALPHA_FULL
    for i in _enabled_first(E.ST_CONNECTED, 0, 1, ralpha):
        out.append({"fn": "h09_3", "env": {"STAGE": E.ST_CONNECTED, "SH0": i, "NOISE": 0, "NADDR": 1, "QA": 2 if quick else 0, "RAISE": 1}, "cond_timeout": 600 if quick else 1500, "path_timeout": 60,
                    "desc": f"stage connected, the application's state subscriber raises (raw exception handed to connection_lost), first event {E.NAMES[ralpha[i]]}, then 2 symbolic events ({len(ralpha)}-event alphabet)"})
    if not quick:
        for st, nz, na in [(E.ST_CONNECTING, 0, 1), (E.ST_HELLO_SENT, 0, 1), (E.ST_CONNECTED, 0, 1), (E.ST_HELLO_SENT, 1, 1)]:
            for i, j in E.enabled_pairs(_mk(st, nz, na), ALPHA_Q):
                out.append({"fn": "h09_4", "env": {"STAGE": st, "SH0": i, "SH1": j, "NOISE": nz, "NADDR": na, "QA": 1}, "cond_timeout": 1500, "path_timeout": 60,
                            "desc": f"stage {E.STAGE_NAMES[st]}{' (noise)' if nz else ''}, events {E.NAMES[ALPHA_Q[i]]}, {E.NAMES[ALPHA_Q[j]]}, then 2 symbolic events (19-event alphabet); then time runs until every call ended"})
    return out


BOUNDS = {"quick": "6 stages (+ noise handshake stage, + two address groups) x 3 events from a 19-event alphabet (thorough: 27 events) (resolver ok/error/hang, connect ok/error/hang, device frames incl. garbage / noise marker / undecodable payload / wrong-order responses, EOF, reset, write failure, silence, caller cancellation, up to 2 concurrent requests), then virtual time runs until all calls have ended",
          "thorough": "3 events from the 27-event alphabet after every stage plus every sequence of 4 events from the 19-event alphabet after connecting, hello sent (plaintext and noise), connected"}
OUTSIDE = ["more than two address groups in the TCP connect", "sequences longer than the bound", "real socket timing"]
ASSUMPTIONS = ["SimLoop virtual clock: callbacks take zero time", "time bounds from the constants cited by the statement: resolve 30 + connect 60; handshake 30 + hello/login 30; request timeout 10; disconnect 5 + 10",
               "first-cause reference: garbage / undecodable payload => ProtocolAPIError, noise marker on plaintext => RequiresEncryptionAPIError, EOF => SocketClosedAPIError; other causes only require a connection-error subclass"]
EXPLANATION = "C09: every spawned call ends within its documented bound, with a result or an APIConnectionError subclass, never cancelled unless the harness cancelled it; no deadlock; waiters see the class of the first fatal cause."
