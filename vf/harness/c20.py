"""C20 -- address resolution order and fallbacks; zeroconf instances are owned correctly."""
from __future__ import annotations

import asyncio
import socket
from ipaddress import IPv4Address, IPv6Address
from typing import List

import aioesphomeapi.host_resolver as HR
from aioesphomeapi import util as U
from aioesphomeapi.core import APIConnectionError
from aioesphomeapi.zeroconf import ZeroconfManager

from vf import track
from vf.harness.common import concretize, shard_int, shard_ints
from vf.simloop import SimLoop
from vf.stubs_zc import FakeZeroconf, ZcWorld
from vf.track import NoTracing

PROPERTY = "C20"
SLEN = shard_int("SLEN", 4)


# ----------------------------------------------------------------------------------------------
# H20a  the two string predicates vs the statement's wording
# ----------------------------------------------------------------------------------------------
def _spec_name_part(s: str) -> bool:
    for ch in s:
        if ch == "." or ch == ":":
            return False
    return True


def _spec_is_local(s: str) -> bool:
    # ends with ".local" after removing one trailing dot
    n = len(s)
    if n > 0 and s[n - 1] == ".":
        n -= 1
    if n < 6:
        return False
    return s[n - 6 : n] == ".local"


def h20a_predicates(s: str) -> bool:
    """
    pre: len(s) <= SLEN
    post: _
    """
    track.entered()
    got_part = U.host_is_name_part(s)
    got_local = U.address_is_local(s)
    exp_part = _spec_name_part(s)
    exp_local = _spec_is_local(s)
    if exp_local or not exp_part:
        if track.reached():
            return False
    if got_part != exp_part:
        return track.fail("host_is_name_part differs from 'contains neither a dot nor a colon'")
    if got_local != exp_local:
        return track.fail("address_is_local differs from 'ends with .local after removing one trailing dot'")
    return True


SUFFIXES = ["", ".", ".local", ".local.", ".local..", ".loca", "local", "local.", ".local.x", ".LOCAL", ".local:", ":.local", "..local"]


def h20a_suffix(prefix: str, k: int) -> bool:
    """
    pre: len(prefix) <= PLEN
    pre: 0 <= k
    post: _
    """
    track.entered()
    s = prefix + SUFFIXES[concretize(k, len(SUFFIXES) - 1)]
    got_part = U.host_is_name_part(s)
    got_local = U.address_is_local(s)
    exp_part = _spec_name_part(s)
    exp_local = _spec_is_local(s)
    if exp_local:
        if track.reached():
            return False
    if got_part != exp_part:
        return track.fail("host_is_name_part differs from 'contains neither a dot nor a colon'")
    if got_local != exp_local:
        return track.fail("address_is_local differs from 'ends with .local after removing one trailing dot'")
    return True


PLEN = shard_int("PLEN", 3)

# ----------------------------------------------------------------------------------------------
# H20b  async_resolve_host decision table
# ----------------------------------------------------------------------------------------------
V4, V6 = socket.AF_INET, socket.AF_INET6
F_V4, F_V6, F_V6FULL, F_V6SCOPE, F_BARE, F_LOCAL, F_LOCALDOT, F_FQDN = range(8)
NFORMS = 8
LITERAL_FORMS = (F_V4, F_V6, F_V6FULL, F_V6SCOPE)
LOCAL_FORMS = (F_BARE, F_LOCAL, F_LOCALDOT)

# mDNS outcomes
M_V4, M_V6, M_BOTH, M_NONE, M_ERROR, M_CREATE_ERROR = range(6)
# OS resolver outcomes
O_V4, O_V6, O_UNKNOWN, O_MIXED, O_EMPTY, O_OSERROR = range(6)


def _host(form: int, i: int) -> str:
    if form == F_V4:
        return f"192.168.{i}.7"
    if form == F_V6:
        return f"2001:db8::{i + 1}"
    if form == F_V6FULL:
        return f"2001:0DB8:0:0:0:0:00a{i}:1"
    if form == F_V6SCOPE:
        return f"fe80::{i + 1}%{i + 3}"
    if form == F_BARE:
        return f"dev{i}"
    if form == F_LOCAL:
        return f"dev{i}.local"
    if form == F_LOCALDOT:
        return f"dev{i}.local."
    return f"dev{i}.example.com"


def _literal_expect(form: int, i: int, port):
    """(family, packed address, port, scope) the statement demands for a literal: written by hand."""
    if form == F_V4:
        return (V4, bytes([192, 168, i, 7]), port, 0)
    if form == F_V6:
        return (V6, bytes([0x20, 0x01, 0x0D, 0xB8] + [0] * 11 + [i + 1]), port, 0)
    if form == F_V6FULL:
        return (V6, bytes([0x20, 0x01, 0x0D, 0xB8] + [0] * 8 + [0, 0xA0 + i, 0, 1]), port, 0)
    return (V6, bytes([0xFE, 0x80] + [0] * 13 + [i + 1]), port, i + 3)


def _pack(family: int, address) -> bytes:
    with NoTracing():
        try:
            return socket.inet_pton(family, address)
        except (OSError, TypeError, ValueError):
            return b"?" + repr(address).encode()


def _norm(ai) -> tuple:
    """what the statement speaks about: family, address (semantically), port, numeric scope."""
    sa = ai.sockaddr
    fam = ai.family
    if fam == V6:
        if not isinstance(sa, HR.IPv6Sockaddr):
            return ("bad-sockaddr-type", fam)
        return (V6, _pack(V6, sa.address), sa.port, sa.scope_id)
    if fam == V4:
        if not isinstance(sa, HR.IPv4Sockaddr):
            return ("bad-sockaddr-type", fam)
        return (V4, _pack(V4, sa.address), sa.port, 0)
    return ("bad-family", fam)


def _mdns_data(i: int):
    """addresses the fake mDNS responder knows for device i: (v4 list, v6 list)."""
    v4 = [IPv4Address(f"10.1.{i}.1"), IPv4Address(f"10.1.{i}.2")]
    v6 = [IPv6Address(f"fd00::{i + 1}"), IPv6Address(f"fe80::a{i}%{i + 5}")]
    return v4, v6


def _mdns_expect(kind: int, i: int, port) -> list:
    e4 = [(V4, bytes([10, 1, i, 1]), port, 0), (V4, bytes([10, 1, i, 2]), port, 0)]
    e6 = [(V6, bytes([0xFD, 0] + [0] * 13 + [i + 1]), port, 0), (V6, bytes([0xFE, 0x80] + [0] * 13 + [0xA0 + i]), port, i + 5)]
    if kind == M_V4:
        return e4
    if kind == M_V6:
        return e6
    if kind == M_BOTH:
        return e6 + e4  # IPv6 results before IPv4
    return []


def _os_raw(kind: int, i: int, port) -> list:
    r4 = (V4, socket.SOCK_STREAM, socket.IPPROTO_TCP, "", (f"10.2.{i}.9", port))
    r6 = (V6, socket.SOCK_STREAM, socket.IPPROTO_TCP, "", (f"fd02::{i + 1}", port, 0, i + 1))
    ru = (socket.AF_UNIX, socket.SOCK_STREAM, 0, "", ("/x", port))
    if kind == O_V4:
        return [r4]
    if kind == O_V6:
        return [r6]
    if kind == O_UNKNOWN:
        return [ru]
    if kind == O_MIXED:
        return [r6, ru, r4]
    return []


def _os_expect(kind: int, i: int, port) -> list:
    e4 = (V4, bytes([10, 2, i, 9]), port, 0)
    e6 = (V6, bytes([0xFD, 0x02] + [0] * 13 + [i + 1]), port, i + 1)
    if kind == O_V4:
        return [e4]
    if kind == O_V6:
        return [e6]
    if kind == O_MIXED:
        return [e6, e4]
    return []


class _Env20:
    """stub environment of one async_resolve_host call; outcomes are concretised when first asked."""

    def __init__(self, zw: ZcWorld, hosts, forms, msel, osel, port, has_instance: bool) -> None:
        self.zw = zw
        self.hosts = hosts
        self.local_idx = [i for i in range(len(hosts)) if forms[i] in LOCAL_FORMS]
        self.creations = 0
        self.msel = msel
        self.osel = osel
        self.port = port
        self.has_instance = has_instance
        self.calls: list = []  # ("mdns"|"os", host index)
        self.m_out = [None] * len(hosts)
        self.o_out = [None] * len(hosts)
        self.foreign = 0
        zw.mdns_answer = self.mdns_answer
        zw.create_hook = self.on_create

    def pick_mdns(self, i: int) -> int:
        if self.m_out[i] is None:
            tab = [m for m in M_TAB if not (self.has_instance and m == M_CREATE_ERROR)]
            self.m_out[i] = tab[concretize(self.msel[i], len(tab) - 1)]
        return self.m_out[i]

    def on_create(self) -> None:
        """the library builds an AsyncZeroconf of its own: the k-th creation serves the k-th local name;
        the creation fails iff the outcome chosen for that host is 'cannot start mDNS sockets'."""
        k = self.creations
        self.creations += 1
        if k >= len(self.local_idx):
            return
        idx = self.local_idx[k]
        if self.pick_mdns(idx) == M_CREATE_ERROR:
            self.calls.append(("mdns", idx))
            raise OSError("cannot start mDNS sockets")

    async def mdns_answer(self, info, zc, timeout):
        idx = None
        for i in range(len(self.hosts)):
            if info.server == f"dev{i}.local." and info.name == f"dev{i}._esphomelib._tcp.local." and info.type == "_esphomelib._tcp.local.":
                idx = i
        if idx is None:
            self.foreign += 1
            await asyncio.sleep(timeout / 1000)
            return None
        self.calls.append(("mdns", idx))
        k = self.pick_mdns(idx)
        if k == M_ERROR or k == M_CREATE_ERROR:
            raise OSError("out of buffers")
        if k == M_NONE:
            await asyncio.sleep(timeout / 1000)
            return None
        await asyncio.sleep(0.05)
        v4, v6 = _mdns_data(idx)
        if k == M_V4:
            return (v4, [])
        if k == M_V6:
            return ([], v6)
        return (v4, v6)

    async def getaddrinfo(self, host, port):
        idx = None
        for i in range(len(self.hosts)):
            if host == self.hosts[i]:
                idx = i
        if idx is None:
            self.foreign += 1
            return []
        self.calls.append(("os", idx))
        if self.o_out[idx] is None:
            self.o_out[idx] = O_TAB[concretize(self.osel[idx], len(O_TAB) - 1)]
        k = self.o_out[idx]
        if k == O_OSERROR:
            raise OSError("name resolution failed")
        await asyncio.sleep(0.01)
        return _os_raw(k, idx, port)


def _multiset_equal(a: list, b: list) -> bool:
    if len(a) != len(b):
        return False
    rest = list(b)
    for x in a:
        hit = -1
        for j in range(len(rest)):
            if rest[j] == x:
                hit = j
                break
        if hit < 0:
            return False
        del rest[hit]
    return True


def h20b_resolve(nh: int, forms: List[int], msel: List[int], osel: List[int], port: int) -> bool:
    """
    pre: 1 <= nh <= MAXH
    pre: len(forms) == MAXH and len(msel) == MAXH and len(osel) == MAXH
    pre: all(0 <= f for f in forms) and all(0 <= m for m in msel) and all(0 <= o for o in osel)
    pre: 0 < port < 65536
    post: _
    """
    track.entered()
    mode = shard_int("MGR", 0)
    first = shard_int("FORM0", -1)
    second = shard_int("FORM1", -1)
    n = concretize(nh - 1, MAXH - 1) + 1
    fl = []
    for i in range(n):
        if i == 0 and first >= 0:
            fl.append(first)
        elif i == 1 and second >= 0:
            fl.append(second)
        else:
            fl.append(FORM_TAB[concretize(forms[i], len(FORM_TAB) - 1)])
    hosts = [_host(fl[i], i) for i in range(n)]
    zw = ZcWorld().install()
    loop = SimLoop().activate()
    try:
        app_zc = FakeZeroconf("app")
        app_azc = None
        if mode == 0:
            mgr = None
        elif mode == 1:
            mgr = ZeroconfManager()
        elif mode == 2:
            app_azc = zw.supplied_async(app_zc)
            mgr = ZeroconfManager(app_azc)
        else:
            mgr = ZeroconfManager(app_zc)
        env = _Env20(zw, hosts, fl, msel, osel, port, has_instance=mode >= 2)
        loop.getaddrinfo_impl = env.getaddrinfo
        task = loop.create_task(HR.async_resolve_host(list(hosts), port, mgr))
        finished = loop.run_until_done(task)
        if mgr is not None:
            ctask = loop.create_task(mgr.async_close())
            loop.run_until_done(ctask)
        if not finished:
            return track.fail("async_resolve_host never completed although every stub completed")
        exc = None
        result = None
        if task.cancelled():
            return track.fail("async_resolve_host was cancelled")
        exc = task.exception()
        if exc is None:
            result = task.result()
        if track.reached():
            return False
        # ---- ownership
        if app_zc.close_calls or (app_azc is not None and app_azc.close_calls):
            return track.fail("a zeroconf instance supplied by the application was closed by the library")
        for a in zw.library_created():
            if a.close_calls < 1:
                return track.fail("an AsyncZeroconf the library created itself was left open")
        if env.foreign:
            return track.fail("a lookup was made for a name that was not configured")
        # ---- decision table, host by host
        expected: list = []
        for i in range(n):
            f = fl[i]
            mine = [c for c in env.calls if c[1] == i]
            if f in LITERAL_FORMS:
                if mine:
                    return track.fail(f"a lookup ({mine[0][0]}) was made for the IP literal {hosts[i]}")
                expected.append([_literal_expect(f, i, port)])
                continue
            if f in LOCAL_FORMS:
                if not mine or mine[0][0] != "mdns":
                    return track.fail(f"{hosts[i]}: mDNS was not consulted first")
                mk = env.m_out[i]
                seg = _mdns_expect(mk, i, port)
                if seg:
                    if len(mine) != 1:
                        return track.fail(f"{hosts[i]}: further lookups although mDNS gave addresses")
                    expected.append(("ordered", seg))
                    continue
                if len(mine) != 2 or mine[1][0] != "os":
                    return track.fail(f"{hosts[i]}: no (single) fall-back to the OS resolver after mDNS gave nothing")
            else:
                if len(mine) != 1 or mine[0][0] != "os":
                    return track.fail(f"{hosts[i]}: must be resolved by the OS resolver only")
            ok = env.o_out[i]
            if ok == O_OSERROR:
                # the statement fixes only the class of the error
                if exc is None:
                    if result:
                        return True  # carried on with other hosts: not excluded by the statement
                    return track.fail("OS resolver error and nothing else resolved, but no error was raised")
                if not isinstance(exc, APIConnectionError):
                    return track.fail(f"raw {type(exc).__name__} escaped instead of an APIConnectionError")
                return True
            expected.append(_os_expect(ok, i, port))
        total = 0
        for seg in expected:
            total += len(seg[1]) if isinstance(seg, tuple) else len(seg)
        if total == 0:
            if exc is None:
                return track.fail(f"nothing resolved but {result!r} was returned instead of a connection error")
            if not isinstance(exc, APIConnectionError):
                return track.fail(f"nothing resolved: {type(exc).__name__} raised, not an APIConnectionError")
            return True
        if exc is not None:
            return track.fail(f"addresses were available but {type(exc).__name__} was raised: {exc}")
        if not isinstance(result, list) or len(result) != total:
            return track.fail(f"{len(result)} results, expected {total}")
        got = [_norm(a) for a in result]
        pos = 0
        for i, seg in enumerate(expected):
            if isinstance(seg, tuple):
                want = seg[1]
                part = got[pos : pos + len(want)]
                if not _multiset_equal(part, want):
                    return track.fail(f"host #{i}: mDNS results wrong: {part}, expected {want} at this position")
                seen_v4 = False
                for g in part:
                    if g[0] == V4:
                        seen_v4 = True
                    elif seen_v4:
                        return track.fail(f"host #{i}: an IPv4 mDNS result precedes an IPv6 one: {part}")
            else:
                want = seg
                part = got[pos : pos + len(want)]
                if not _multiset_equal(part, want):
                    return track.fail(f"host #{i} ({hosts[i]}): got {part}, expected {want} at this position")
            pos += len(want)
        return True
    finally:
        zw.uninstall()
        loop.shutdown()


MAXH = shard_int("MAXH", 2)
if shard_int("RESTRICT", 0):
    FORM_TAB = [F_V4, F_V6SCOPE, F_BARE, F_LOCALDOT, F_FQDN]
    M_TAB = [M_V6, M_BOTH, M_NONE, M_ERROR]
    O_TAB = [O_V4, O_MIXED, O_EMPTY, O_OSERROR]
else:
    FORM_TAB = list(range(NFORMS))
    M_TAB = [M_V4, M_V6, M_BOTH, M_NONE, M_ERROR, M_CREATE_ERROR]
    O_TAB = [O_V4, O_V6, O_UNKNOWN, O_MIXED, O_EMPTY, O_OSERROR]


# ----------------------------------------------------------------------------------------------
# H20c  ownership of zeroconf instances over sequences of manager operations
# ----------------------------------------------------------------------------------------------
OP_GET, OP_CLOSE, OP_SET_ASYNC, OP_SET_SYNC, OP_RESOLVE_OK, OP_RESOLVE_ERR, OP_RESOLVE_NOSOCK, OP_RESOLVE_CANCEL = range(8)
NOPS = 8


class _Boom(Exception):
    pass


def h20c_ownership(ops: List[int]) -> bool:
    """
    pre: len(ops) == NOPSEQ
    pre: all(0 <= o for o in ops)
    post: _
    """
    track.entered()
    init = shard_int("INIT", 0)
    first = shard_int("OP0", -1)
    zw = ZcWorld().install()
    loop = SimLoop().activate()
    try:
        app_zc = FakeZeroconf("app")
        app_azc = zw.supplied_async(app_zc)  # the application's AsyncZeroconf (wraps app_zc)
        state = {"mode": "ok", "requests": []}

        async def answer(info, zc, timeout):
            state["requests"].append(zc)
            if state["mode"] == "err":
                raise OSError("out of buffers")
            await asyncio.sleep(0.05)
            return ([IPv4Address("10.0.0.9")], [])

        def create_hook():
            if state["mode"] == "nosock":
                raise OSError("cannot start mDNS sockets")

        zw.mdns_answer = answer
        zw.create_hook = create_hook
        if init == 0:
            mgr = ZeroconfManager()
            holder = None  # None | "app" | a library-created FakeAsyncZeroconf
        elif init == 1:
            mgr = ZeroconfManager(app_azc)
            holder = "app"
        else:
            mgr = ZeroconfManager(app_zc)
            holder = "app"

        def run(coro):
            t = loop.create_task(coro)
            if not loop.run_until_done(t):
                return ("stuck", None)
            if t.cancelled():
                return ("cancelled", None)
            e = t.exception()
            if e is not None:
                return ("exc", e)
            return ("ok", t.result())

        def invariants(where: str):
            if app_zc.close_calls or app_azc.close_calls:
                return f"{where}: the zeroconf instance supplied by the application was closed by the library"
            for a in zw.library_created():
                if a is holder:
                    if a.close_calls:
                        return f"{where}: the manager still hands out an instance it already closed"
                elif a.close_calls < 1:
                    return f"{where}: an AsyncZeroconf created by the library is no longer held and was not closed"
            return None

        interesting = False
        for step in range(NOPSEQ):
            if step == 0 and first >= 0:
                op = first
            else:
                op = OPTAB[concretize(ops[step], len(OPTAB) - 1)]
            before = len(zw.library_created())
            if op == OP_GET:
                r = mgr.get_async_zeroconf()
                new = zw.library_created()[before:]
                if holder is None:
                    if len(new) != 1 or r is not new[0]:
                        return track.fail("get_async_zeroconf with no instance did not hand out a freshly created one")
                    holder = r
                elif holder == "app":
                    if r.zeroconf is not app_zc or new:
                        return track.fail("get_async_zeroconf did not hand out the supplied instance")
                else:
                    if r is not holder or new:
                        return track.fail("get_async_zeroconf did not hand out the instance it holds")
                if r.close_calls or r.zeroconf.close_calls:
                    return track.fail("get_async_zeroconf handed out a closed instance")
            elif op == OP_CLOSE:
                st, val = run(mgr.async_close())
                if st != "ok":
                    return track.fail(f"async_close: {st} {val!r}")
                if holder is not None and holder != "app":
                    interesting = True
                    if holder.close_calls < 1:
                        return track.fail("async_close() did not close the instance the library had created")
                    holder = None
                    if mgr.has_instance:
                        return track.fail("the manager still holds an instance after closing its own")
            elif op == OP_SET_ASYNC or op == OP_SET_SYNC:
                if holder is not None and holder != "app":
                    break  # replacing a library-created instance: outside the statement (RuntimeError today)
                try:
                    mgr.set_instance(app_azc if op == OP_SET_ASYNC else app_zc)
                except RuntimeError:
                    return track.fail("set_instance refused the application's (same) zeroconf instance")
                holder = "app"
            elif op == OP_RESOLVE_CANCEL:
                # the caller is cancelled while the mDNS request is in flight (a cancelled connect,
                # ReconnectLogic.stop()): an instance created for this call is no longer needed either
                had = holder is not None
                state["mode"] = "ok"
                t = loop.create_task(HR._async_zeroconf_get_service_info(mgr, "_esphomelib._tcp.local.", "d._esphomelib._tcp.local.", "d.local.", 3.0))
                loop.run_ready()
                if t.done():
                    return track.fail("resolver call finished before the mDNS answer")
                t.cancel()
                if not loop.run_until_done(t):
                    return track.fail("cancelled resolver call never ended")
                if not t.cancelled():
                    t.exception()
                new = zw.library_created()[before:]
                if not had:
                    interesting = True
                    for a in new:
                        if a.close_calls < 1:
                            return track.fail("a cancelled resolver call left the AsyncZeroconf it caused to be created open")
                    if mgr.has_instance:
                        return track.fail("the manager still holds the instance that the cancelled resolver call created")
                elif holder != "app" and holder.close_calls:
                    return track.fail("a cancelled resolver call closed an instance it did not cause to be created (still in use)")
            else:
                had = holder is not None
                if op == OP_RESOLVE_NOSOCK and had:
                    break  # a creation fault needs a creation
                state["mode"] = {OP_RESOLVE_OK: "ok", OP_RESOLVE_ERR: "err", OP_RESOLVE_NOSOCK: "nosock"}[op]
                nreq = len(state["requests"])
                st, val = run(HR._async_zeroconf_get_service_info(mgr, "_esphomelib._tcp.local.", "d._esphomelib._tcp.local.", "d.local.", 3.0))
                state["mode"] = "ok"
                new = zw.library_created()[before:]
                if st == "stuck" or st == "cancelled":
                    return track.fail(f"resolver call {st}")
                if op == OP_RESOLVE_OK and st != "ok":
                    return track.fail(f"resolver call failed although mDNS answered: {val!r}")
                if op != OP_RESOLVE_OK and not (st == "exc" and isinstance(val, APIConnectionError)):
                    return track.fail(f"mDNS failure surfaced as {st} {val!r}, not as a connection error")
                if not had:
                    interesting = True
                    for a in new:
                        if a.close_calls < 1:
                            return track.fail("the resolver call left the AsyncZeroconf it caused to be created open")
                    if mgr.has_instance:
                        return track.fail("the manager still holds the instance that the resolver call created and closed")
                else:
                    if holder != "app" and holder.close_calls:
                        return track.fail("a resolver call closed an instance it did not cause to be created (still in use)")
                    if op != OP_RESOLVE_NOSOCK and len(state["requests"]) > nreq:
                        zc_used = state["requests"][-1]
                        want = app_zc if holder == "app" else holder.zeroconf
                        if zc_used is not want:
                            return track.fail("the resolver did not use the instance the manager holds")
            bad = invariants(f"after step {step} (op {op})")
            if bad:
                return track.fail(bad)
        # no longer needed: the owner of the manager closes it
        st, val = run(mgr.async_close())
        if st != "ok":
            return track.fail(f"final async_close: {st} {val!r}")
        # every complete sequence ends with a close on a manager whose history is known: oracle point
        if track.reached():
            return False
        if holder not in (None, "app"):
            if holder.close_calls < 1:
                return track.fail("final async_close() did not close the library-created instance")
            holder = None
            if mgr.has_instance:
                return track.fail("the manager still holds an instance after closing its own")
        bad = invariants("at the end")
        if bad:
            return track.fail(bad)
        return True
    finally:
        zw.uninstall()
        loop.shutdown()


NOPSEQ = shard_int("NOPSEQ", 4)
OPTAB = shard_ints("OPTAB", "0,1,2,3,4,5,6,7")


def shards(tier: str) -> list:
    quick = tier == "quick"
    out = []
    out.append({"fn": "h20a_predicates", "env": {"SLEN": 8 if quick else 11}, "cond_timeout": 200 if quick else 900,
                "desc": "host_is_name_part / address_is_local on every string up to the length bound (full unicode alphabet)"})
    out.append({"fn": "h20a_suffix", "env": {"PLEN": 3 if quick else 6}, "cond_timeout": 200 if quick else 900,
                "desc": "symbolic prefix + one of 13 endings around '.local' / '.local.'"})
    # H20b
    local_first = [F_BARE, F_LOCAL, F_LOCALDOT]
    for mode in (0, 1, 2, 3):
        full2 = (mode in (0, 2)) or not quick
        if full2:
            for f0 in range(NFORMS):
                if f0 in local_first and mode < 2:
                    # the largest sub-trees (6 mDNS x 6 OS outcomes for the first host): split on the second host's form
                    for f1 in range(NFORMS):
                        out.append({"fn": "h20b_resolve", "env": {"MGR": mode, "MAXH": 2, "FORM0": f0, "FORM1": f1}, "cond_timeout": 600,
                                    "desc": f"async_resolve_host, 1..2 hosts, host forms {f0},{f1}, manager mode {mode}, all mDNS x OS outcomes"})
                    continue
                out.append({"fn": "h20b_resolve", "env": {"MGR": mode, "MAXH": 2, "FORM0": f0}, "cond_timeout": 600,
                            "desc": f"async_resolve_host, 1..2 hosts, first host form {f0}, manager mode {mode}, all mDNS x OS outcomes"})
        else:
            out.append({"fn": "h20b_resolve", "env": {"MGR": mode, "MAXH": 1}, "cond_timeout": 300,
                        "desc": f"async_resolve_host, 1 host, all forms, manager mode {mode}"})
    if not quick:
        red = (F_V4, F_V6SCOPE, F_BARE, F_LOCALDOT, F_FQDN)
        for mode in (0, 2):
            for f0 in red:
                for f1 in red:
                    out.append({"fn": "h20b_resolve", "env": {"MGR": mode, "MAXH": 3, "FORM0": f0, "FORM1": f1, "RESTRICT": 1}, "cond_timeout": 1500,
                                "desc": f"async_resolve_host, 1..3 hosts, reduced alphabets, host forms {f0},{f1},*, manager mode {mode}"})
    # H20c
    n = 4 if quick else 5
    for init in (0, 1, 2):
        ni = n - 1 if (quick and init > 0) else n  # quick: managers that start with a supplied instance get one op less
        for op0 in range(NOPS):
            out.append({"fn": "h20c_ownership", "env": {"INIT": init, "OP0": op0, "NOPSEQ": ni}, "cond_timeout": 300 if quick else 1500,
                        "desc": f"ZeroconfManager op sequences of length {ni}, initial state {init}, first op {op0}"})
    if not quick:
        for op0 in (OP_GET, OP_CLOSE, OP_SET_ASYNC, OP_RESOLVE_OK, OP_RESOLVE_ERR):
            out.append({"fn": "h20c_ownership", "env": {"INIT": 0, "OP0": op0, "NOPSEQ": 6, "OPTAB": "0,1,2,4,5"}, "cond_timeout": 1500,
                        "desc": f"ZeroconfManager op sequences of length 6 over {{get, close, set_instance, resolve ok, resolve error}}, empty manager, first op {op0}"})
    return out


BOUNDS = {
    "quick": {
        "H20a": "every str of length <= 8; prefix of length <= 3 + 13 endings",
        "H20b": "1..2 hosts x 8 forms (IPv4, IPv6 compressed, IPv6 full upper-case, IPv6%numeric scope, bare, name.local, name.local., FQDN) x mDNS {v4, v6, both, none, request error, cannot create sockets} x OS {v4, v6, unknown family, mixed, empty, OSError}; port symbolic in 1..65535; manager None / supplied AsyncZeroconf (2 hosts), empty manager / supplied Zeroconf (1 host)",
        "H20c": "all sequences of 4 operations out of {get, close, set_instance(AsyncZeroconf), set_instance(Zeroconf), resolve ok, resolve error, resolve with socket-creation error, resolve cancelled while the mDNS request is in flight} from an empty manager, of 3 operations from managers constructed with a supplied AsyncZeroconf / Zeroconf",
    },
    "thorough": {
        "H20a": "every str of length <= 11; prefix <= 6 + 13 endings",
        "H20b": "as quick with 2 hosts for all four manager modes, plus 1..3 hosts over reduced alphabets (5 forms, 4 mDNS outcomes, 4 OS outcomes)",
        "H20c": "all sequences of 5 operations (8 operations, 3 initial managers); all sequences of 6 over {get, close, set_instance(AsyncZeroconf), resolve ok, resolve error} from an empty manager",
    },
}
OUTSIDE = [
    "host strings other than the concrete representatives of each form (the predicates that classify them are covered for all short strings by H20a)",
    "IPv6 literals with a non-numeric scope (statement speaks of numeric scope only)",
    "more than 3 hosts; more than 2 addresses per family from mDNS",
    "real mDNS / DNS traffic and timing (stubs)",
    "set_instance() with a *different* instance than the one held (RuntimeError today; not in the statement)",
]
ASSUMPTIONS = [
    "zeroconf doubles (vf/stubs_zc.py): AsyncZeroconf/Zeroconf/AsyncServiceInfo replaced at the module-level names the library uses; AsyncServiceInfo.async_request answers only the service/server name of a configured device",
    "loop.getaddrinfo replaced by a stub that knows only the configured host strings; it returns raw 5-tuples as socket.getaddrinfo does",
    "address equality is semantic (inet_pton of the returned string == hand-written bytes); type/proto of AddrInfo not checked",
    "an OSError of the OS resolver for one host: APIConnectionError (or carrying on with the other hosts) accepted; the statement fixes only the error class",
    "order of OS-resolver results within one host is don't-care; order across hosts and IPv6-before-IPv4 for mDNS is checked",
    "SimLoop virtual-time scheduler (DESIGN 1.3)",
]
EXPLANATION = ("C20: oracle = the statement's decision table evaluated independently per host (which lookups may happen, in which order, "
               "and the resulting address segments), plus close-call accounting on supplied vs library-created zeroconf doubles.")
