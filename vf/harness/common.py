"""Helpers shared by harness modules."""
from __future__ import annotations

import asyncio
import logging
import os

logging.disable(logging.CRITICAL)

_LOOP = asyncio.new_event_loop()  # created at import: nothing lazy may happen inside a path


def base_loop():
    """a plain (never run) event loop so that asyncio.get_event_loop()/create_future work."""
    asyncio.set_event_loop(_LOOP)
    return _LOOP


def shard(name: str, default: str = "") -> str:
    return os.environ.get("VF_" + name, default)


def shard_int(name: str, default: int = 0) -> int:
    return int(os.environ.get("VF_" + name, str(default)))


def shard_ints(name: str, default: str = "") -> list:
    s = os.environ.get("VF_" + name, default)
    return [int(x) for x in s.split(",") if x != ""]


def concretize(n, hi: int) -> int:
    """turn a (symbolic) int in [0, hi] into a concrete one by forking."""
    k = 0
    while k < hi and k < n:
        k += 1
    return k


class RecConn:
    """recording stand-in for APIConnection as seen by a frame helper."""

    def __init__(self):
        self.got = []
        self.errors = []
        self.helper = None
        self.on_packet = None

    def process_packet(self, t, d):
        self.got.append((t, d))
        if self.on_packet is not None:
            self.on_packet(t, d)

    def report_fatal_error(self, e):
        self.errors.append(e)
        # the real connection closes the helper in _cleanup
        if self.helper is not None:
            self.helper.close()


class RecTransport:
    def __init__(self):
        self.writes = []
        self.closed = False
        self.close_calls = 0

    def write(self, d):
        self.writes.append(d)

    def close(self):
        self.closed = True
        self.close_calls += 1

    def is_closing(self):
        return self.closed

    def get_extra_info(self, *a, **k):
        return None


def same(a, b) -> bool:
    """identity-or-equality (NaN-safe) comparison of two values."""
    return a is b or a == b or (a != a and b != b)


class SymTuple:
    """model of tuple.__getitem__ for a symbolic int index (CrossHair realises the index of a
    concrete tuple of non-numeric items, which never exhausts an unbounded domain): negative indexes
    wrap, anything outside raises IndexError, the item is selected by forking."""

    def __init__(self, items):
        self._items = tuple(items)

    def __len__(self):
        return len(self._items)

    def __iter__(self):
        return iter(self._items)

    def __getitem__(self, i):
        n = len(self._items)
        if i < 0:
            i = i + n
        if i < 0 or i >= n:
            raise IndexError("tuple index out of range")
        return self._items[concretize(i, n - 1)]


class StubHelper:
    """recording stand-in for a frame helper as seen by APIConnection."""

    def __init__(self):
        self.writes = []  # one entry per write_packets call: list of (type, payload)
        self.closed = False
        self.fail = None

    def write_packets(self, packets, debug_enabled):
        if self.fail is not None:
            raise self.fail
        self.writes.append(list(packets))

    def close(self):
        self.closed = True

    def set_log_name(self, n):
        pass


def connected_conn(loop=None, keepalive=20.0, on_stop=None, register_internal=True):
    """a real APIConnection placed directly in CONNECTED with a recording frame helper."""
    from aioesphomeapi.connection import APIConnection, ConnectionParams, ConnectionState

    if loop is None:
        loop = base_loop()
    params = ConnectionParams(addresses=["10.0.0.1"], port=6053, password=None, client_info="c",
                              keepalive=keepalive, zeroconf_manager=None, noise_psk=None, expected_name=None)
    stops = []

    def _stop(expected):
        stops.append(expected)
        if on_stop is not None:
            on_stop(expected)

    conn = APIConnection(params, _stop, False, "x")
    conn._loop = loop
    helper = StubHelper()
    conn._frame_helper = helper
    conn._set_connection_state(ConnectionState.HANDSHAKE_COMPLETE)
    if register_internal:
        conn._register_internal_message_handlers()
    conn._set_connection_state(ConnectionState.CONNECTED)
    return conn, helper, stops


class Sub:
    """callable subscriber with a fixed small hash, so that a `set` of them iterates in index order
    both under CrossHair and natively (plain functions hash by address, which differs per run)."""

    __slots__ = ("i", "fn")

    def __init__(self, i: int, fn):
        self.i = i
        self.fn = fn

    def __call__(self, msg):
        return self.fn(msg)

    def __hash__(self):
        return self.i

    def __eq__(self, other):
        return self is other
