"""Helpers shared by harness modules."""
from __future__ import annotations

import asyncio
import logging
import os

logging.disable(logging.CRITICAL)

_LOOP = asyncio.new_event_loop()  # created at import: nothing lazy may happen inside a path


def base_loop():
    """a plain (never run) event loop so that asyncio.get_event_loop()/create_future work."""
    asyncio.set_event_loop(_LOOP)
    return _LOOP


def shard(name: str, default: str = "") -> str:
    return os.environ.get("VF_" + name, default)


def shard_int(name: str, default: int = 0) -> int:
    return int(os.environ.get("VF_" + name, str(default)))


def shard_ints(name: str, default: str = "") -> list:
    s = os.environ.get("VF_" + name, default)
    return [int(x) for x in s.split(",") if x != ""]


def concretize(n, hi: int) -> int:
    """turn a (symbolic) int in [0, hi] into a concrete one by forking."""
    k = 0
    while k < hi and k < n:
        k += 1
    return k


class RecConn:
    """recording stand-in for APIConnection as seen by a frame helper."""

    def __init__(self):
        self.got = []
        self.errors = []
        self.helper = None
        self.on_packet = None

    def process_packet(self, t, d):
        self.got.append((t, d))
        if self.on_packet is not None:
            self.on_packet(t, d)

    def report_fatal_error(self, e):
        self.errors.append(e)
        # the real connection closes the helper in _cleanup
        if self.helper is not None:
            self.helper.close()


class RecTransport:
    def __init__(self):
        self.writes = []
        self.closed = False
        self.close_calls = 0

    def write(self, d):
        self.writes.append(d)

    def close(self):
        self.closed = True
        self.close_calls += 1

    def is_closing(self):
        return self.closed

    def get_extra_info(self, *a, **k):
        return None


def same(a, b) -> bool:
    """identity-or-equality (NaN-safe) comparison of two values."""
    return a is b or a == b or (a != a and b != b)
