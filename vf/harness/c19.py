"""C19 -- the client never wedges and refuses work unless a session is alive."""
from __future__ import annotations

import asyncio

from aioesphomeapi.core import APIConnectionError

from vf import scen, track
from vf.harness.common import concretize, shard_int
from vf.scen import CLOSED, CONNECTED, HS, INIT, OPENED, World

PROPERTY = "C19"

(DRAIN, TIMER, C_START, C_FINISH, M_UP, C_DISC, C_FORCE, C_CMD, C_SUB, C_REQ, CONNECT_OK, CONNECT_ERR,
 D_HELLO, D_DISCREQ, D_GARBAGE, EOF, RESET, TURN, C_CONNECT, D_BADAUTH, D_HELLO_DISC, RESOLVE_OK) = range(22)
NAMES = ["DRAIN", "TIMER", "C_START", "C_FINISH", "M_UP", "C_DISC", "C_FORCE", "C_CMD", "C_SUB", "C_REQ", "CONNECT_OK",
         "CONNECT_ERR", "D_HELLO", "D_DISCREQ", "D_GARBAGE", "EOF", "RESET", "TURN", "C_CONNECT", "D_BADAUTH", "D_HELLO_DISC", "RESOLVE_OK"]
ALPHA_FULL = list(range(len(NAMES)))
# quick tier: without the events that only add orderings of effects the others already produce
ALPHA_Q = [DRAIN, TIMER, C_START, C_FINISH, M_UP, C_DISC, C_FORCE, C_CMD, C_REQ, CONNECT_OK, D_HELLO, D_DISCREQ, EOF, RESET, D_HELLO_DISC, RESOLVE_OK]
ALPHA = ALPHA_Q if shard_int("QA", 0) else ALPHA_FULL
NA = len(ALPHA)
SH0 = shard_int("SH0", 0)
SH1LO = shard_int("SH1LO", 0)
SH1HI = shard_int("SH1HI", 22)
CMODE = shard_int("CMODE", 0)  # 0: TCP connect completes at once; 1: stays pending until CONNECT_OK / CONNECT_ERR
ONSTOP = shard_int("ONSTOP", 0)  # 1: the stop callback of the application reconnects at once
PREFIX = shard_int("PREFIX", 0)  # concrete history before the symbolic events
PREFIX_NAMES = ["fresh client", "session up", "session ended by device", "started, not finished", "started then disconnect()",
                "started then disconnect(force=True)", "failed attempt (connect error)", "session ended by disconnect()", "auth failure",
                "attempt resolving the address", "attempt resolving, then disconnect(force=True) and a new attempt in the same turn", "hello sent, responses pending"]


class Run:
    def __init__(self):
        self.w = World()
        self.w.connect_mode = "ok" if CMODE == 0 else "pending"
        self.loop = self.w.loop
        self.conns = []
        world = self.w
        run = self
        Base = world.ConnCls

        class Tracked(Base):
            __slots__ = ()

            def __init__(self, *a, **k):
                super().__init__(*a, **k)
                run.conns.append(self)
                world.conn = self

        import aioesphomeapi.client as CL

        CL.APIConnection = Tracked
        self.user_stops = []

        async def on_stop(expected):
            self.user_stops.append(expected)
            if ONSTOP and len(self.user_stops) <= 2:
                # the application reconnects from inside its stop callback: by then the session is over,
                # so the client is idle and must accept
                idle = not (self.attempt_in_progress() or self.session_alive())
                try:
                    await self.cli.start_connection(self.on_stop)
                except APIConnectionError as e:
                    if idle and "Already connected" in str(e):
                        self.fail(f"start_connection() called from the stop callback was refused with 'Already connected' although the session is over; trace={self.trace}")
                except Exception:  # noqa: BLE001
                    pass

        self.on_stop = on_stop
        self.cli = world.new_client()
        self.calls = []  # (kind, task)
        self.dead = []  # connections on which a close cause has taken effect
        self.dying = []  # ... will have taken effect after the next loop iteration (reset)
        self.disc_calls = []  # (kind, task, connection): a graceful disconnect is over when its call returned
        self.trace = []
        self.viol = None

    # ---- the monitor's model (independent of APIClient internals)
    def phase_pending(self) -> bool:
        return any(k in ("start", "finish", "connect") and not t.done() for k, t in self.calls)

    def cur(self):
        return self.conns[-1] if self.conns else None

    def is_dead(self, c) -> bool:
        return any(c is d for d in self.dead)

    def attempt_in_progress(self) -> bool:
        if self.phase_pending():
            return True
        c = self.cur()
        return c is not None and not self.is_dead(c) and c.connection_state in (OPENED, HS)

    def session_alive(self) -> bool:
        c = self.cur()
        return c is not None and not self.is_dead(c) and c.connection_state is CONNECTED

    def kill(self, c) -> None:
        """a close cause has taken effect on connection c (independent of the state it reports)."""
        if c is not None and not self.is_dead(c):
            self.dead.append(c)

    def settle_dying(self) -> None:
        """after a loop iteration: a reset has been delivered; finished disconnect calls have closed."""
        for c in self.dying:
            self.kill(c)
        self.dying = []
        self.settle_calls()

    def settle_calls(self) -> None:
        for k, t, c in self.disc_calls:
            if t.done():
                self.kill(c)

    # ---- calls
    def eager(self, kind, coro):
        t = asyncio.Task(coro, loop=self.loop, eager_start=True)
        self.calls.append((kind, t))
        return t

    def fail(self, why, sig=None):
        if self.viol is None:
            self.viol = (why, sig)

    def do_start(self, kind="start"):
        expect_accept = not (self.attempt_in_progress() or self.session_alive())
        c0 = self.cur()
        closed_leftover = c0 is not None and c0.connection_state is CLOSED
        n_before = len(self.conns)
        coro = self.cli.start_connection(self.on_stop) if kind == "start" else self.cli.connect(self.on_stop, True)
        t = self.eager(kind, coro)
        refused = t.done() and not t.cancelled() and isinstance(t.exception(), APIConnectionError) and "Already connected" in str(t.exception())
        if t.done() and not t.cancelled():
            t.exception()
        if expect_accept and refused:
            sig = None
            if closed_leftover and not self.reached_connected_any(c0):
                sig = "C19/closed-unestablished-connection-not-forgotten"
            self.fail(f"start refused with 'Already connected' although no attempt is in progress and no session is alive; trace={self.trace}", sig)
        # (the statement only forbids refusing an idle client; accepting while busy is not judged)
        return True

    def reached_connected_any(self, c) -> bool:
        return any(n is CONNECTED and cc is c for (p, n, cc) in self.statelog())

    def statelog(self):
        # World logs (prev, new) pairs; attribute them to connections by replaying creation order
        return getattr(self, "_slog", [])

    def do_work(self, kind):
        alive = self.session_alive()
        tr = self.w.transport
        nw = len(tr.writes) if tr is not None else 0
        exc = None
        res = None
        try:
            if kind == "cmd":
                self.cli.switch_command(1, True)
            elif kind == "sub":
                self.cli.subscribe_states(lambda s: None)
            else:
                res = self.eager("req", self.cli.device_info())
                if res.done() and not res.cancelled() and res.exception() is not None:
                    exc = res.exception()
        except Exception as e:  # noqa: BLE001
            exc = e
        if not alive:
            if exc is None:
                self.fail(f"{kind} issued while no session is alive did not raise; trace={self.trace}")
            elif not isinstance(exc, APIConnectionError):
                self.fail(f"{kind} issued while no session is alive raised {type(exc).__name__}, not a connection error; trace={self.trace}")
            tr2 = self.w.transport
            if tr2 is not None and tr2 is tr and len(tr2.writes) != nw:
                self.fail(f"{kind} issued while no session is alive wrote to the transport; trace={self.trace}")
        elif exc is not None and not isinstance(exc, APIConnectionError):
            self.fail(f"{kind} on a live session raised {type(exc).__name__}; trace={self.trace}")
        return True

    def drain(self):
        n = 0
        while self.loop._ready and n < 300:
            self.loop.turn()
            n += 1
        self.settle_dying()

    def apply(self, ev: int) -> bool:
        w, loop, cli = self.w, self.loop, self.cli
        self.trace.append(NAMES[ev])
        if ev == DRAIN:
            if not loop._ready:
                return False
            self.drain()
        elif ev == TURN:
            if not loop._ready:
                return False
            loop.turn()
            self.settle_dying()
        elif ev == TIMER:
            self.drain()
            if loop.next_timer() is None:
                return False
            loop.turn()
            self.drain()
        elif ev == C_START:
            if sum(1 for k, _ in self.calls if k in ("start", "connect")) >= 4:
                return False
            self.do_start("start")
        elif ev == C_CONNECT:
            if sum(1 for k, _ in self.calls if k in ("start", "connect")) >= 4:
                return False
            self.do_start("connect")
        elif ev == C_FINISH:
            # finish is only meaningful for a started, unfinished attempt with no phase call pending
            c = self.cur()
            if c is None or self.phase_pending() or c.connection_state is not OPENED:
                return False
            self.eager("finish", cli.finish_connection(True))
        elif ev == M_UP:
            # macro: bring a session up if (and only if) the model says the client is idle
            if self.attempt_in_progress() or self.session_alive() or CMODE != 0:
                return False
            self.do_start("start")
            self.drain()
            c = self.cur()
            if c is None or c.connection_state is not OPENED:
                return True
            self.eager("finish", cli.finish_connection(True))
            self.drain()
            w.feed(scen.HELLO_OK + scen.CONNECT_OK)
            self.drain()
        elif ev == C_DISC:
            c = self.cur()
            t = self.eager("disc", cli.disconnect())
            self.disc_calls.append(("disc", t, c))
            self.settle_calls()
        elif ev == C_FORCE:
            c = self.cur()
            t = self.eager("disc", cli.disconnect(force=True))
            self.disc_calls.append(("force", t, c))
            self.settle_calls()
        elif ev == RESOLVE_OK:
            if not w.complete_resolve():
                return False
        elif ev == C_CMD:
            self.do_work("cmd")
        elif ev == C_SUB:
            self.do_work("sub")
        elif ev == C_REQ:
            self.do_work("req")
        elif ev == CONNECT_OK:
            if not w.complete_connect():
                return False
        elif ev == CONNECT_ERR:
            if not w.fail_connect():
                return False
        elif ev in (D_HELLO, D_DISCREQ, D_GARBAGE, D_BADAUTH, D_HELLO_DISC):
            data = {D_HELLO: scen.HELLO_OK + scen.CONNECT_OK, D_DISCREQ: scen.DISC_REQ, D_GARBAGE: scen.GARBAGE,
                    D_BADAUTH: scen.HELLO_OK + scen.CONNECT_BAD, D_HELLO_DISC: scen.HELLO_OK + scen.CONNECT_OK + scen.DISC_REQ}[ev]
            c = self.cur()
            if not w.feed(data):
                return False
            if ev in (D_DISCREQ, D_GARBAGE, D_HELLO_DISC):
                self.kill(c)  # the device ended the session / broke the framing: processed synchronously
        elif ev == EOF:
            tr = w.transport
            if tr is None or tr.closing or not tr.made:
                return False
            c = self.cur()
            tr.feed_eof()
            self.kill(c)
        elif ev == RESET:
            tr = w.transport
            if tr is None or tr.closing or not tr.made:
                return False
            self.dying.append(self.cur())
            tr.feed_reset()
        return True

    def prefix(self, p: int) -> None:
        A = self.apply
        if p == 0:
            return
        if p in (1, 2, 7):
            A(M_UP)
            if p == 2:
                A(D_DISCREQ)
                A(DRAIN)
            if p == 7:
                A(C_DISC)
                A(DRAIN)
                self.w.feed(scen.DISC_RESP)
                self.drain()
            return
        if p in (3, 4, 5):
            A(C_START)
            self.drain()
            if p == 4:
                A(C_DISC)
                self.drain()
            if p == 5:
                # (between the two phases no transport exists, so only a local call can close)
                A(C_FORCE)
                self.drain()
            return
        if p == 6:
            old = self.w.connect_mode
            self.w.connect_mode = "error"
            A(C_START)
            self.drain()
            self.w.connect_mode = old
            return
        if p in (9, 10):
            self.w.resolve_mode = "pending"
            A(C_START)
            self.drain()
            if p == 10:
                A(C_FORCE)
                A(C_START)
            return
        if p == 11:
            A(C_START)
            self.drain()
            self.eager("finish", self.cli.finish_connection(True))
            self.drain()
            return
        if p == 8:
            A(C_START)
            self.drain()
            self.eager("finish", self.cli.finish_connection(True))
            self.drain()
            A(D_BADAUTH)
            self.drain()

    def close(self):
        for _k, t in self.calls:
            if t.done() and not t.cancelled():
                t.exception()
        self.w.close()


def _run(events: list) -> bool:
    track.entered()
    r = Run()
    try:
        # attribute state transitions to connection objects for the "ever CONNECTED" question
        r._slog = []
        orig_log = r.w.state_log

        class _L(list):
            def append(self2, item):
                list.append(self2, item)
                r._slog.append((item[0], item[1], r.cur()))

        r.w.state_log = _L(orig_log)
        r.prefix(PREFIX)
        r.trace.append("|")
        for a in events:
            ev = ALPHA[concretize(a, NA - 1)]
            if not r.apply(ev):
                return track.pruned()
            if r.viol is not None:
                break
        r.drain()
        if track.reached():
            return False
        if r.viol is not None:
            return track.fail(r.viol[0], r.viol[1])
        for kind, t in r.calls:
            if t.done() and not t.cancelled():
                e = t.exception()
                if e is not None and not isinstance(e, (APIConnectionError, RuntimeError)):
                    return track.fail(f"{kind} call ended with {type(e).__name__}: {e} -- not a connection error; trace={r.trace}")
        return True
    finally:
        r.close()


def h19_3(a0: int, a1: int, a2: int) -> bool:
    """
    pre: a0 == SH0
    pre: SH1LO <= a1 < SH1HI and 0 <= a2 < NA
    post: _
    """
    return _run([a0, a1, a2])


def h19_4(a0: int, a1: int, a2: int, a3: int) -> bool:
    """
    pre: a0 == SH0
    pre: SH1LO <= a1 < SH1HI and 0 <= a2 < NA and 0 <= a3 < NA
    post: _
    """
    return _run([a0, a1, a2, a3])


def _enabled_first(prefix: int, cmode: int, alpha) -> list:
    """indices (into alpha) of the first events that are enabled after a history."""
    global PREFIX, CMODE
    out = []
    old = (PREFIX, CMODE)
    PREFIX, CMODE = prefix, cmode
    try:
        for i, ev in enumerate(alpha):
            r = Run()
            try:
                r.prefix(prefix)
                if r.apply(ev):
                    out.append(i)
            finally:
                r.close()
    finally:
        PREFIX, CMODE = old
    return out


def _second_enabled(prefix: int, cmode: int, i0: int, lo: int, hi: int, alpha) -> bool:
    global PREFIX, CMODE
    old = (PREFIX, CMODE)
    PREFIX, CMODE = prefix, cmode
    try:
        for j in range(lo, min(hi, len(alpha))):
            r = Run()
            try:
                r.prefix(prefix)
                if r.apply(alpha[i0]) and r.apply(alpha[j]):
                    return True
            finally:
                r.close()
        return False
    finally:
        PREFIX, CMODE = old


def shards(tier: str) -> list:
    out = []
    quick = tier == "quick"
    fn = "h19_3" if quick else "h19_4"
    alpha = ALPHA_Q if quick else ALPHA_FULL
    n = len(alpha)
    combos = [(p, 0, 0) for p in range(12)] + [(0, 1, 0), (6, 1, 0), (1, 0, 1)]
    for p, cm, ons in combos:
        # thorough: split the second event as well
        splits = [(0, n)] if quick else [(0, 5), (5, 10), (10, 15), (15, n)]
        for i in _enabled_first(p, cm, alpha):
            for lo, hi in splits:
                if len(splits) > 1 and not _second_enabled(p, cm, i, lo, hi, alpha):
                    continue  # nothing in this slice is enabled: the shard would be vacuous
                out.append({"fn": fn, "env": {"PREFIX": p, "CMODE": cm, "SH0": i, "SH1LO": lo, "SH1HI": hi, "ONSTOP": ons, "QA": 1 if quick else 0},
                            "cond_timeout": 600 if quick else 2400, "path_timeout": 60,
                            "desc": f"history '{PREFIX_NAMES[p]}'{' with a stop callback that reconnects at once' if ons else ''} (connect {'immediate' if cm == 0 else 'pending'}), first event {NAMES[alpha[i]]}, second in [{lo},{hi}), then {1 if quick else 2} more symbolic events ({n}-event alphabet)"})
    return out


BOUNDS = {"quick": "12 concrete histories (incl. one or two earlier sessions/attempts; + pending TCP connect; + a stop callback that reconnects at once) x 3 events from a 16-event alphabet (thorough: 22 events) of client calls (start, finish, connect, disconnect, force disconnect, command, subscription, request, macro 'bring a session up') and device/fault events",
          "thorough": "same with 4 events"}
OUTSIDE = ["sequences longer than the bound", "noise transport", "finish_connection() calls with no started attempt (API misuse, not quantified by the statement)"]
ASSUMPTIONS = ["SimLoop/SimTransport model (see C05)", "monitor model: attempt in progress = a start/finish/connect call is pending or the newest connection is between the phases and no close cause has taken effect on it; session alive = newest connection reached CONNECTED and no close cause (device DisconnectRequest / garbage / EOF, delivered reset, force disconnect, returned disconnect()) has taken effect on it -- tracked by the harness, not read from the connection"]
EXPLANATION = "C19: at every start/connect call the acceptance is compared with the monitor's model; every command/subscription/request without a live session must raise a connection error and write nothing."
