"""C03 -- Noise sessions interoperate with a conformant responder for any chunking of the stream."""
from __future__ import annotations

from aioesphomeapi._frame_helper import noise as N
from aioesphomeapi._frame_helper.noise import APINoiseFrameHelper
from aioesphomeapi.core import BadNameAPIError

from vf import noise_h as H
from vf import noise_ref as NR
from vf import refcodec as R
from vf import track
from vf.harness.common import concretize, shard, shard_int, shard_ints
from vf.track import NoTracing

PROPERTY = "C03"
NEEDS_NOISE_PATCHES = True

# frame body length classes of the framing step: 0..3 symbolic bytes; boundary sizes with filler
BOUNDARY = {4: 255, 5: 256, 6: 65535}


def _as_kind(kind: int, data: bytes):
    if kind == 0:
        return data
    if kind == 1:
        return bytearray(data)
    return memoryview(bytearray(data))


# ------------------------------------------------------------------------------------------------
# H03b  inductive framing step
# ------------------------------------------------------------------------------------------------

class _RecNoise(APINoiseFrameHelper):
    """for H03b only: the three per-state frame handlers are recorders that perform the state
    transition of the real ones (HELLO -> HANDSHAKE -> READY); data_received, the buffer code and
    the closed-state handler are the real ones."""

    __slots__ = ("log",)

    def _handle_hello(self, server_hello):
        self.log.append((1, server_hello))
        self._state = N.NOISE_STATE_HANDSHAKE

    def _handle_handshake(self, msg):
        self.log.append((2, msg))
        self._state = N.NOISE_STATE_READY

    def _handle_frame(self, frame):
        self.log.append((3, frame))


def _body(cls: int, blob: bytes, off: int) -> bytes:
    if cls <= 3:
        return blob[off : off + cls]
    n = BOUNDARY[cls]
    return blob[off : off + 1] + bytes([0x5A]) * (n - 2) + blob[off + 1 : off + 2]


def _cut_positions(ends, n):
    """every position for short streams; around headers and frame ends for long ones."""
    if n <= 40:
        return list(range(n + 1))
    pos = set([0, n])
    start = 0
    for e in ends:
        for d in range(0, 6):
            if start + d <= n:
                pos.add(start + d)
        for d in range(0, 3):
            if e - d >= 0:
                pos.add(e - d)
        pos.add((start + e) // 2)
        start = e
    return sorted(pos)


def h03b_step(st: int, blob: bytes, bi: int, ci: int, junkpos: int) -> bool:
    """
    pre: 1 <= st <= 3
    pre: len(blob) == 9
    pre: 0 <= bi and 0 <= ci
    pre: 0 <= junkpos < 2**40
    post: _
    """
    track.entered()
    classes = shard_ints("CLS", "1,1")
    kind = shard_int("KIND", 0)
    bodies = [_body(c, blob, 3 * i) for i, c in enumerate(classes)]
    encs = [R.enc_noise_outer(b) for b in bodies]
    S = b"".join(encs)
    ends = []
    pos = 0
    for e in encs:
        pos += len(e)
        ends.append(pos)
    n = len(S)
    cuts = _cut_positions(ends, n)
    bcands = [p for p in cuts if p < ends[0]]  # pre-state: proper prefix of the first frame
    b = bcands[concretize(bi, len(bcands) - 1)]
    ccands = [p for p in cuts if p > b]
    c = ccands[concretize(ci, len(ccands) - 1)]
    with NoTracing():
        h, cn, tr = H.new_helper(0, None, cls=_RecNoise)
        h.log = []
    # arbitrary valid state between two data_received calls: any of the three live protocol states,
    # the buffer holds exactly the bytes since the last handled frame (no complete frame), _pos junk
    h._state = st
    if b > 0:
        h._buffer = S[0:b]
        h._buffer_len = b
    h._pos = junkpos
    h.data_received(_as_kind(kind, S[b:c]))
    if track.reached():
        return False
    exp = []
    s = st
    for body, e in zip(bodies, ends):
        if e <= c:
            exp.append((s, body))
            s = s + 1 if s < 3 else 3
    a2 = max([0] + [e for e in ends if e <= c])
    rem = S[a2:c]
    if cn.errors:
        return track.fail("an error was reported for a well-formed frame sequence")
    if tr.closed:
        return track.fail("transport closed on a well-formed frame sequence")
    if len(h.log) != len(exp):
        return track.fail(f"{len(h.log)} frames handed to handlers, expected {len(exp)} (b={b}, c={c}, ends={ends})")
    for (gs, gb), (es, eb) in zip(h.log, exp):
        if gs != es:
            return track.fail("frame handed to the handler of a state other than the then-current state")
        if gb != eb:
            return track.fail("frame body handed to the handler differs from the bytes sent")
    if h._state != s:
        return track.fail("state after the chunk differs")
    if h._buffer_len != len(rem):
        return track.fail("retained byte count differs from the bytes of the incomplete trailing frame")
    if len(rem) and bytes(h._buffer[: h._buffer_len]) != rem:
        return track.fail("retained bytes differ from the bytes of the incomplete trailing frame")
    return True


# ------------------------------------------------------------------------------------------------
# H03a  whole session against the independent responder
# ------------------------------------------------------------------------------------------------

REAL_MSGS = [(1, b""), (300, b"ab"), (65535, bytes(range(20)))]


def _names(sname: int, expect: int):
    """(name bytes announced or None, expected_name setting, session must be accepted)."""
    name = None if sname == 0 else (b"dev" if sname == 1 else b"")
    if expect == 0:
        return name, None, True
    if expect == 1:  # equal (absent name: some expectation is configured, nothing is announced)
        return name, ("dev" if sname != 2 else ""), True
    if sname == 0:
        return name, "other", True  # nothing announced: nothing to reject, the responder is conformant
    return name, ("other" if sname == 1 else "dev"), False


def _session_cuts(n: int, marks, full: bool):
    if full:
        return list(range(1, n + 1))
    pos = set([n])
    for mk in marks:
        for d in (-2, -1, 0, 1, 2, 3, 4):
            if 0 < mk + d <= n:
                pos.add(mk + d)
    for i in range(len(marks) - 1):
        pos.add((marks[i] + marks[i + 1]) // 2)
    return sorted(p for p in pos if p > 0)


def h03a_session(c1: int, c2: int, t0: int, t1: int, t2: int, blob: bytes) -> bool:
    """
    pre: 0 <= c1 and 0 <= c2
    pre: 0 <= t0 < 65536 and 0 <= t1 < 65536 and 0 <= t2 < 65536
    pre: len(blob) == 18
    post: _
    """
    track.entered()
    psk_i = shard_int("PSK", 0)
    sname = shard_int("SNAME", 1)
    expect = shard_int("EXPECT", 0)
    real = shard_int("REAL", 0)
    m = shard_int("M", 2)
    ncuts = shard_int("CUTS", 1)
    kind = shard_int("KIND", 0)
    ctl = shard_ints("CTL", "2,1,3")
    pll = shard_ints("PL", "1,0,2")
    full = shard_int("FULL", 1 if shard_int("CUTS", 1) == 1 else 0) == 1
    lo_cut = shard_int("CLO", 0)
    hi_cut = shard_int("CHI", 1 << 30)
    name, expected_name, accept = _names(sname, expect)

    h, cn, tr = H.new_helper(psk_i, expected_name)
    if len(tr.writes) != 1:
        return track.fail("client opening not written with one write")
    with NoTracing():
        dev = NR.Device(H.PSKS[psk_i], name)
        try:
            hello, hs = dev.accept(bytes(tr.writes[0]))
        except NR.NoiseRefError as e:
            hello = hs = None
            why = str(e)
    if hello is None:
        return track.fail("client opening rejected by the reference responder: " + why)
    if hs[3] != 0:
        return track.fail("reference responder could not authenticate the client's handshake message (same key)")

    types = [t0, t1, t2][:m]
    if real:
        with NoTracing():
            msgs = list(REAL_MSGS[:m])
            frames = [dev.data_frame(t, p) for t, p in msgs]
        sent = []
    else:
        msgs = []
        frames = []
        sent = []
        for i in range(m):
            ct = blob[6 * i : 6 * i + ctl[i]]
            payload = blob[6 * i + 3 : 6 * i + 3 + pll[i]]
            msgs.append((types[i], payload))
            sent.append((i, ct, R.enc_noise_inner(types[i], payload)))
            frames.append(R.enc_noise_outer(ct))
    S = hello + hs + b"".join(frames)
    n = len(S)
    he = len(hello)
    hs_end = he + len(hs)
    ends = []
    pos = hs_end
    for f in frames:
        pos += len(f)
        ends.append(pos)
    allc = _session_cuts(n, [he, hs_end] + ends, full)
    xs = [p for p in allc if lo_cut <= p <= hi_cut]  # shard: range of the first cut (n = not cut at all)
    x = xs[concretize(c1, len(xs) - 1)]
    bounds = [0, x]
    if ncuts >= 2 and x < n:
        rest = [p for p in allc if p > x]
        y = rest[concretize(c2, len(rest) - 1)]
        bounds.append(y)
    if bounds[-1] != n:
        bounds.append(n)

    if track.reached():
        return False
    ideal = H.IdealAEAD(sent)
    with H.ideal_decrypt_at_handshake(ideal) if not real else _Null():
        for i in range(len(bounds) - 1):
            lo, hi = bounds[i], bounds[i + 1]
            if tr.closed:
                break  # a closed transport delivers no further data
            nb = len(cn.got)
            if accept and h.ready_future.done() != (lo >= hs_end):
                return track.fail("ready_future state before the chunk is not 'resolved iff the last handshake byte has arrived'")
            H.feed(h, tr, _as_kind(kind, S[lo:hi]))
            if len(tr.writes) != 1:
                return track.fail("the client wrote something besides hello+handshake on its own")
            if accept:
                if cn.errors:
                    return track.fail(f"error reported in an honest session: {type(cn.errors[0]).__name__}")
                if tr.closed:
                    return track.fail("transport closed in an honest session")
                if h.ready_future.done() != (hi >= hs_end):
                    return track.fail("ready_future must be unresolved before, and resolved right after, the chunk holding the last handshake byte")
                if h.ready_future.done() and h.ready_future.exception() is not None:
                    return track.fail("ready_future carries an exception in an honest session")
                exp_now = [mm for mm, e in zip(msgs, ends) if lo < e <= hi]
                got_now = cn.got[nb:]
                if len(got_now) != len(exp_now):
                    return track.fail(f"chunk {lo}:{hi}: delivered {len(got_now)} messages, expected {len(exp_now)}")
                for (gt, gp), (et, ep) in zip(got_now, exp_now):
                    if gt != et or gp != ep:
                        return track.fail("delivered message differs from the message the responder encrypted")
            else:
                if cn.got:
                    return track.fail("a message was delivered although the device name must be rejected")
                if hi < he:
                    if cn.errors or h.ready_future.done() or tr.closed:
                        return track.fail("reaction before the server hello is complete")
                else:
                    if not cn.errors or not isinstance(cn.errors[0], BadNameAPIError):
                        return track.fail("mismatching device name not reported as BadNameAPIError")
                    if cn.errors[0].received_name != name.decode():
                        return track.fail("BadNameAPIError does not carry the received name")
                    if not h.ready_future.done() or not isinstance(h.ready_future.exception(), BadNameAPIError):
                        return track.fail("ready_future does not carry BadNameAPIError")
                    if not tr.closed:
                        return track.fail("transport not closed after a mismatching device name")
    if accept:
        if h._state != N.NOISE_STATE_READY:
            return track.fail("helper not READY at the end of an honest session")
        if h._buffer_len != 0:
            return track.fail("bytes left in the buffer after the last complete frame")
        if h._decrypt_cipher._nonce != m:
            return track.fail("inbound nonce after m frames is not m")
        if h._encrypt_cipher._nonce != 0:
            return track.fail("outbound nonce is not 0 when nothing has been sent yet")
        if not real and ideal.dec_calls != m:
            return track.fail("number of decryptions differs from the number of frames")
    return True


class _Null:
    def __enter__(self):
        return self

    def __exit__(self, *a):
        return False


# ------------------------------------------------------------------------------------------------

def shards(tier: str) -> list:
    out = []
    quick = tier == "quick"
    # H03b
    if quick:
        pairs = [(0, 0), (1, 0), (0, 2), (2, 1), (3, 1), (1, 3)]
        triples = [(1, 0, 1), (0, 2, 0)]
        big = [(4, 1), (1, 5), (6, 0)]
        kinds = [(1, (1, 1)), (2, (2, 0))]
    else:
        pairs = [(a, b) for a in range(4) for b in range(4)]
        triples = [(a, b, c) for a in range(3) for b in range(3) for c in (0, 1)]
        big = [(a, b) for a in (4, 5, 6) for b in (0, 1)] + [(b, a) for a in (4, 5, 6) for b in (0, 1)]
        kinds = [(k, p) for k in (1, 2) for p in ((1, 1), (2, 0), (0, 2), (1, 2))]
    for p in pairs:
        out.append({"fn": "h03b_step", "env": {"CLS": ",".join(map(str, p)), "KIND": 0}, "cond_timeout": 300,
                    "desc": f"framing step from any state in HELLO/HANDSHAKE/READY, 2 frames body lengths {p}, all cut pairs"})
    for p in triples:
        out.append({"fn": "h03b_step", "env": {"CLS": ",".join(map(str, p)), "KIND": 0}, "cond_timeout": 400,
                    "desc": f"framing step, chunk may complete 3 frames {p}"})
    for p in big:
        out.append({"fn": "h03b_step", "env": {"CLS": ",".join(map(str, p)), "KIND": 0}, "cond_timeout": 400,
                    "desc": f"framing step with boundary body sizes {p} (255/256/65535; cuts around headers/ends)"})
    for k, p in kinds:
        out.append({"fn": "h03b_step", "env": {"CLS": ",".join(map(str, p)), "KIND": k}, "cond_timeout": 300,
                    "desc": f"framing step with chunk type {'bytearray' if k == 1 else 'memoryview'}"})
    # H03a
    cfgs = [(sn, ex) for sn in (0, 1, 2) for ex in (0, 1, 2)]
    ranges = [(1, 15), (16, 32), (33, 50), (51, 9999)]
    if quick:
        for sn, ex in cfgs:
            out.append({"fn": "h03a_session", "env": {"PSK": (sn + ex) % 2, "SNAME": sn, "EXPECT": ex, "M": 2, "CUTS": 1}, "cond_timeout": 400,
                        "desc": f"session vs reference responder, ideal AEAD data phase (symbolic type/payload/ciphertext bytes), name cfg {sn}/{ex}, 1 cut anywhere"})
        for sn, ex in ((1, 1), (2, 2)):
            out.append({"fn": "h03a_session", "env": {"PSK": 1, "SNAME": sn, "EXPECT": ex, "M": 2, "CUTS": 2}, "cond_timeout": 600,
                        "desc": f"session, ideal AEAD data phase, name cfg {sn}/{ex}, 2 cuts around every frame boundary"})
        for psk in (0, 1):
            out.append({"fn": "h03a_session", "env": {"PSK": psk, "SNAME": 1, "EXPECT": 1, "M": 2, "CUTS": 1, "REAL": 1, "KIND": psk + 1}, "cond_timeout": 400,
                        "desc": f"session vs reference responder with the real cipher end to end (key {psk}), 1 cut anywhere"})
    else:
        for sn, ex in cfgs:
            for psk in (0, 1):
                out.append({"fn": "h03a_session", "env": {"PSK": psk, "SNAME": sn, "EXPECT": ex, "M": 3, "CUTS": 1}, "cond_timeout": 600,
                            "desc": f"session, ideal AEAD data phase, key {psk}, name cfg {sn}/{ex}, 3 messages, 1 cut anywhere"})
            out.append({"fn": "h03a_session", "env": {"PSK": 0, "SNAME": sn, "EXPECT": ex, "M": 2, "CUTS": 2}, "cond_timeout": 900,
                        "desc": f"session, ideal AEAD data phase, name cfg {sn}/{ex}, 2 cuts around every frame boundary"})
        for sn, ex in ((1, 1), (0, 0), (1, 2)):
            for lo, hi in ranges:
                out.append({"fn": "h03a_session", "env": {"PSK": 1, "SNAME": sn, "EXPECT": ex, "M": 2, "CUTS": 2, "FULL": 1, "CLO": lo, "CHI": hi}, "cond_timeout": 1200,
                            "desc": f"session, ideal AEAD data phase, name cfg {sn}/{ex}, every pair of cut positions with the first cut in [{lo},{hi}]"})
        for psk in (0, 1):
            for k in (0, 1, 2):
                out.append({"fn": "h03a_session", "env": {"PSK": psk, "SNAME": 1, "EXPECT": 1, "M": 3, "CUTS": 1, "REAL": 1, "KIND": k}, "cond_timeout": 600,
                            "desc": f"session with the real cipher end to end (key {psk}, chunk type {k}), 1 cut anywhere"})
            out.append({"fn": "h03a_session", "env": {"PSK": psk, "SNAME": 1, "EXPECT": 0, "M": 2, "CUTS": 2, "REAL": 1}, "cond_timeout": 900,
                        "desc": f"session with the real cipher end to end (key {psk}), 2 cuts around every frame boundary"})
    # H03c
    if quick:
        out.append({"fn": "h03c_gate", "env": {"PSK": 0, "CUTS": 1}, "cond_timeout": 400, "path_timeout": 60,
                    "desc": "real APIConnection.finish_connection on the simulated loop, noise helper vs reference responder: nothing written/delivered before readiness, HelloRequest is the first encrypted frame (nonce 0); server opening cut at one position anywhere"})
    else:
        for psk in (0, 1):
            out.append({"fn": "h03c_gate", "env": {"PSK": psk, "CUTS": 1}, "cond_timeout": 400, "path_timeout": 60,
                        "desc": f"connection-level gating, key {psk}, server opening cut at one position anywhere"})
        for lo, hi in ((1, 3), (4, 7), (8, 12), (13, 18), (19, 26), (27, 38), (39, 9999)):
            out.append({"fn": "h03c_gate", "env": {"PSK": 0, "CUTS": 2, "CLO": lo, "CHI": hi}, "cond_timeout": 1200, "path_timeout": 60,
                        "desc": f"connection-level gating, server opening cut at every pair of positions with the first cut in [{lo},{hi}]"})
    return out


BOUNDS = {
    "quick": "framing step: symbolic state in {HELLO,HANDSHAKE,READY}, <= 3 frames per chunk, body lengths 0..3 (symbolic bytes) and 255/256/65535 (filler + 2 symbolic bytes), every cut pair (short streams) / cuts around headers and ends (long), chunk types bytes/bytearray/memoryview. "
             "session: 2 concrete keys, server name absent/'dev'/empty x expected none/equal/different, stream hello|handshake|2 data frames cut at one position anywhere (or not at all), two configurations also with 2 cuts within -2..+4 of every frame boundary; data phase with the ideal AEAD: message types symbolic in [0,65536), payload (0..2 bytes) and ciphertext tokens (1..3 bytes) symbolic; plus the real cipher end to end with 2 concrete messages",
    "thorough": "as quick with all body-length pairs 0..3, 18 triples, 3 data messages, both keys for every name configuration, 2 cuts taken from the positions within -2..+4 of every frame boundary and the midpoints for every configuration and every pair of cut positions for three configurations, real cipher with all chunk types",
}
OUTSIDE = [
    "'for all keys': the two keys are concrete; the framing code (h03b) never touches the key",
    "correctness of X25519 / ChaCha20-Poly1305 / SHA-256 themselves",
    "more than 3 frames completed by one chunk (covered through the per-frame loop iteration only)",
    "device names other than absent / 'dev' / empty here (symbolic names: C04 h04b_name)",
    "connection-level gating (h03c) uses the real cipher with one device name and login=False; message sequences beyond HelloRequest/HelloResponse belong to C05/C06",
]
ASSUMPTIONS = [
    "vf/noise_ref.py (written from the Noise specification, shares no code with `noise` or the repo) is the conformant responder",
    "data phase of the symbolic session shards: ideal AEAD (decrypt(nonce, c) yields the plaintext iff c is byte-equal to what the responder model produced under that nonce, else InvalidTag); the real-cipher shards validate key assignment, nonce layout and tag position against the reference responder",
    "h03b replaces _handle_hello/_handle_handshake/_handle_frame by recorders that perform the real handlers' state transition (for that harness only); the real handlers run in h03a",
    "representation invariant used by the inductive step: between data_received calls the buffer holds exactly the bytes since the last handled frame, no complete frame, _pos arbitrary; h03a re-establishes it end to end from a fresh helper",
    "ephemeral keys pinned (client via the library's own 'use e if set' rule), noise library entry points and struct packing run through the FFI patches of vf/plugin.py",
    "an exception escaping data_received is treated as asyncio does: transport closed, connection_lost(exc)",
    "h03c: SimLoop = real asyncio scheduler with virtual clock and in-memory transport; stub resolver / connect (vf/scen.py)",
]
EXPLANATION = ("C03: oracle = each complete frame is handed exactly once, in order, to the handler of the then-current state and the tail is retained (step); "
               "ready_future resolves exactly in the chunk holding the last handshake byte, nothing is delivered before, afterwards deliveries equal the responder's messages in order, "
               "each in the chunk holding its last byte; name accepted iff no expected name or equal, else BadNameAPIError carrying the received name, closed, nothing delivered.")


# ------------------------------------------------------------------------------------------------
# H03c  gating in the connection: nothing application-level is sent or delivered before readiness
# ------------------------------------------------------------------------------------------------

def h03c_gate(c1: int, c2: int) -> bool:
    """
    pre: 0 <= c1 and 0 <= c2
    post: _
    """
    track.entered()
    from noise.backends.default.diffie_hellmans import ED25519
    from noise.backends.default.keypairs import KeyPair25519

    from aioesphomeapi import api_pb2 as pb
    from aioesphomeapi.connection import ConnectionState

    from vf.scen import World

    psk_i = shard_int("PSK", 0)
    orig_gen = ED25519.generate_keypair
    ED25519.generate_keypair = lambda self: KeyPair25519.from_private_bytes(H.CLIENT_EPHEMERAL)  # pinned
    w = World(noise_psk=H.PSK_B64[psk_i], expected_name="dev")
    try:
        w.connect_mode = "ok"
        log = []

        class GateConn(w.ConnCls):
            __slots__ = ()

            def process_packet(self, t, d):
                fh = self._frame_helper
                log.append(("deliver", t, fh is not None and fh.ready_future.done() and fh.ready_future.exception() is None))
                super().process_packet(t, d)

        w.ConnCls = GateConn
        conn = w.new_connection()
        t1 = w.task(conn.start_connection())
        w.loop.run_ready()
        if not t1.done() or t1.exception() is not None:
            return track.fail("start_connection did not complete in the stub environment")
        t2 = w.task(conn.finish_connection(login=False))
        w.loop.run_ready()
        tr = w.transport
        fh = conn._frame_helper
        if tr is None or fh is None or len(tr.writes) != 1:
            return track.fail("client opening not written with one write")
        with NoTracing():
            dev = NR.Device(H.PSKS[psk_i], b"dev")
            try:
                hello, hs = dev.accept(tr.writes[0][1])
            except NR.NoiseRefError:
                hello = None
        if hello is None or hs[3] != 0:
            return track.fail("client opening rejected by the reference responder")
        S = hello + hs
        n = len(S)
        xs = [p for p in range(1, n + 1) if shard_int("CLO", 0) <= p <= shard_int("CHI", 1 << 30)]
        x = xs[concretize(c1, len(xs) - 1)]  # first chunk S[:x]; x == n: one chunk
        bounds = [0, x]
        if x < n and shard_int("CUTS", 1) < 2:
            bounds.append(n)
        elif x < n:
            y = x + 1 + concretize(c2, n - x - 1)
            bounds.append(y)
            if y < n:
                bounds.append(n)
        if track.reached():
            return False
        for i in range(len(bounds) - 1):
            lo, hi = bounds[i], bounds[i + 1]
            tr.feed(S[lo:hi])
            w.loop.run_ready()
            if hi < n:
                if fh.ready_future.done():
                    return track.fail("readiness signalled before the last handshake byte")
                if len(tr.writes) != 1:
                    return track.fail("the connection wrote before the handshake had completed")
                if log:
                    return track.fail("a message was delivered before the handshake had completed")
        if not fh.ready_future.done() or fh.ready_future.exception() is not None:
            return track.fail("handshake with the reference responder did not complete")
        if log:
            return track.fail("a message was delivered although the device sent none")
        # now, and only now, the first application message (HelloRequest, id 1) goes out, encrypted
        if len(tr.writes) != 2:
            return track.fail(f"expected exactly the HelloRequest after readiness, saw {len(tr.writes) - 1} writes")
        with NoTracing():
            bodies = NR.split_frames(tr.writes[1][1])
            try:
                first = [dev.open_frame_body(b) for b in bodies] if bodies else None
            except NR.NoiseRefError:
                first = None
        if not first or first[0][0] != 1:
            return track.fail("first write after readiness is not an encrypted HelloRequest under nonce 0")
        with NoTracing():
            resp = dev.data_frame(2, pb.HelloResponse(api_version_major=1, api_version_minor=10, name="dev").SerializeToString())
        tr.feed(resp)
        w.loop.run_ready()
        if not t2.done() or t2.exception() is not None:
            return track.fail("finish_connection did not complete after the HelloResponse")
        if conn.connection_state is not ConnectionState.CONNECTED:
            return track.fail("connection not CONNECTED")
        if [e[:2] for e in log] != [("deliver", 2)] or not log[0][2]:
            return track.fail("HelloResponse not delivered exactly once after readiness")
        return True
    finally:
        ED25519.generate_keypair = orig_gen
        w.close()
