"""C02 (noise part) -- what the encrypted helper writes conforms to the documented wire format.

Add-on to vf/harness/c02.py (to be merged there): `h02c_noise_write` (inductive on the outbound
nonce, ideal AEAD recorder) and `h02d_real_cipher` (real cipher against the independent responder).
"""
from __future__ import annotations

from aioesphomeapi._frame_helper import noise as N

from vf import noise_h as H
from vf import noise_ref as NR
from vf import refcodec as R
from vf import track
from vf.harness.common import concretize, shard_int, shard_ints
from vf.track import NoTracing

PROPERTY = "C02"
NEEDS_NOISE_PATCHES = True

# payload length classes: 0..2 symbolic bytes; boundary sizes (two symbolic bytes + filler).  The
# outer length is payload + 4 (inner header) + 16 (tag): its high byte differs from the payload
# length's high byte exactly when len % 256 >= 236, hence 235/236/255/256/491/492/511; 65515 is the
# largest payload whose frame length fits the 16-bit outer length field.
NBOUNDARY = {3: 235, 4: 236, 5: 255, 6: 256, 7: 491, 8: 492, 9: 511, 10: 65259, 11: 65515}


def _payload(cls: int, blob: bytes, off: int) -> bytes:
    if cls <= 2:
        return blob[off : off + cls]
    n = NBOUNDARY[cls]
    return blob[off : off + 1] + bytes([0xA5]) * (n - 2) + blob[off + 1 : off + 2]


def h02c_noise_write(n: int, t0: int, t1: int, t2: int, blob: bytes) -> bool:
    """
    pre: 0 <= n < 2**32
    pre: 0 <= t0 < 65536 and 0 <= t1 < 65536 and 0 <= t2 < 65536
    pre: len(blob) == 6
    post: _
    """
    track.entered()
    classes = shard_ints("CLS", "1")
    k = len(classes)
    types = [t0, t1, t2][:k]
    packets = [(types[i], _payload(c, blob, 2 * i)) for i, c in enumerate(classes)]
    h, cn, tr, _dev = H.ready_helper(0)
    ideal = H.IdealAEAD()
    # any point of a session: READY, outbound counter n, the cipher is the recording ideal AEAD
    h._encrypt_cipher._encrypt = ideal.encrypt
    h._encrypt_cipher._nonce = n
    before = len(tr.writes)
    h.write_packets(list(packets), False)
    if track.reached():
        return False
    if len(tr.writes) - before != 1:
        return track.fail("batch not written with exactly one transport.write")
    frames = R.dec_noise_outer_stream(tr.writes[-1])
    if frames is None:
        return track.fail("written bytes are not a sequence of frames 01 | BE16(len) | body")
    if len(frames) != k or len(ideal.enc_log) != k:
        return track.fail("number of frames / encryptions differs from the number of packets")
    for i in range(k):
        nonce, pt = ideal.enc_log[i]
        if nonce != H.ref_nonce(n + i):
            return track.fail(f"encryption {i} did not use the nonce (32 zero bits, LE64 counter) of counter n+{i}")
        if pt != R.enc_noise_inner(packets[i][0], packets[i][1]):
            return track.fail(f"plaintext {i} is not BE16(type) BE16(len) payload")
        if frames[i] != ideal.tokens[i]:
            return track.fail(f"frame {i} body is not the ciphertext returned for packet {i}")
    if h._encrypt_cipher._nonce != n + k:
        return track.fail("outbound counter after the batch is not n + k")
    if cn.errors or tr.closed:
        return track.fail("error / close while writing")
    return True


POOL = [(1, b""), (7, b"x"), (65535, bytes(236)), (300, bytes(range(200)) + bytes(55)), (2, bytes(256)), (40, b"abc"),
        (9, bytes(492)), (10, b"\xff" * 20), (11, bytes(1000))]


def h02d_real_cipher(b0: int, b1: int, b2: int, off: int) -> bool:
    """
    pre: 1 <= b0 <= 3 and 0 <= b1 <= 3 and 0 <= b2 <= 3
    pre: 0 <= off <= 2
    post: _
    """
    track.entered()
    psk_i = shard_int("PSK", 0)
    sizes = [concretize(b0 - 1, 2) + 1, concretize(b1, 3), concretize(b2, 3)]
    o = concretize(off, 2)
    h, cn, tr, dev = H.ready_helper(psk_i)
    if h._encrypt_cipher._nonce != 0:
        return track.fail("outbound counter is not 0 when READY is entered")
    sent = []
    pos = o
    for s in sizes:
        if s == 0:
            continue
        batch = [POOL[(pos + j) % len(POOL)] for j in range(s)]
        pos += s
        before = len(tr.writes)
        h.write_packets(list(batch), False)
        if len(tr.writes) - before != 1:
            return track.fail("batch not written with exactly one transport.write")
        sent.extend(batch)
    if track.reached():
        return False
    # the independent responder decrypts every frame with its receive key and counters 0,1,2,...
    with NoTracing():
        got = []
        why = None
        for w in tr.writes[1:]:
            bodies = NR.split_frames(bytes(w))
            if bodies is None:
                why = "a write is not a sequence of frames 01 | BE16(len) | body"
                break
            for body in bodies:
                try:
                    got.append(dev.open_frame_body(body))
                except NR.NoiseRefError as e:
                    why = f"frame {len(got)} does not decrypt under the responder's key with counter {len(got)}: {e}"
                    break
            if why:
                break
    if why:
        return track.fail(why)
    if got != sent:
        return track.fail("decrypted (type, payload) sequence differs from the packets given")
    if h._encrypt_cipher._nonce != len(sent):
        return track.fail("outbound counter differs from the number of frames written")
    return True


def shards(tier: str) -> list:
    out = []
    if tier == "quick":
        one = [0, 1, 2, 3, 4, 5, 6, 7, 8, 9]
        multi = [(0, 0), (1, 0), (2, 1), (4, 1), (1, 5), (6, 2), (1, 1, 1), (0, 4, 1), (2, 0, 8)]
    else:
        one = list(range(12))
        multi = [(a, b) for a in range(10) for b in (0, 1, 2, 4, 5, 8)] + [(a, b, c) for a in (0, 1, 4, 6) for b in (0, 2, 5, 9) for c in (0, 1, 4)]
    for c in one:
        out.append({"fn": "h02c_noise_write", "env": {"CLS": str(c)}, "cond_timeout": 300,
                    "desc": f"noise write_packets, 1 packet, payload class {c} ({NBOUNDARY.get(c, c)} bytes), symbolic nonce/type"})
    for m in multi:
        out.append({"fn": "h02c_noise_write", "env": {"CLS": ",".join(map(str, m))}, "cond_timeout": 400,
                    "desc": f"noise write_packets, payload classes {m}, symbolic nonce/types"})
    for psk in (0, 1):
        out.append({"fn": "h02d_real_cipher", "env": {"PSK": psk}, "cond_timeout": 400,
                    "desc": f"real cipher, key {psk}: up to 3 write calls x up to 3 packets decrypt under the reference responder's key with consecutive nonces from 0"})
    return out


BOUNDS = {
    "quick": {"noise batch": "outbound counter n symbolic in [0, 2^32); 1..3 packets, types symbolic in [0, 65536); payload lengths 0,1,2 (symbolic bytes) and 235,236,255,256,491,492,511 (two symbolic bytes + filler)",
              "real cipher": "2 concrete keys; 1..3 write calls of 1..3 packets from a fixed pool (sizes 0,1,3,20,236,255,256,492,1000)"},
    "thorough": {"noise batch": "as quick plus 65259 and 65515 bytes and 60 pairs / 48 triples of classes", "real cipher": "as quick"},
}
OUTSIDE = [
    "noise payloads longer than 65515 bytes (4 + len + 16 no longer fits the 16-bit outer length; the documented format has no encoding for them)",
    "outbound counters >= 2^32 in the symbolic step (the real-cipher runs start at 0)",
    "batches of more than 3 packets; protobuf byte encoding of message bodies",
]
ASSUMPTIONS = [
    "recording ideal AEAD in h02c (encrypt records (nonce bytes, plaintext) and returns an opaque token of len+16 bytes); the real cipher, key assignment and nonce layout are exercised by h02d against vf/noise_ref.py",
    "READY state is produced by the real handshake against the reference responder (untraced, pinned ephemeral keys); 'counter is 0 when READY is entered' is checked in h02d and C03 h03a",
    "Struct('<LQ').pack behind PACK_NONCE is modelled by CrossHair's struct.pack (plugin patch), format taken from the repo's object",
]
EXPLANATION = "C02 noise: exactly one write; it parses as frames 01|BE16(len(ct))|ct; the i-th encryption used counter n+i and plaintext BE16(type) BE16(len) payload; the counter ends at n+k."
