"""C05 -- connection state only moves forward; closed is final; one connect per object."""
from __future__ import annotations

from vf import engine as E
from vf import track
from vf.engine import Scenario
from vf.harness.common import concretize, shard_int
from vf.scen import CLOSED, CONNECTED, OPENED

PROPERTY = "C05"

ALPHA_FULL = [E.DRAIN, E.TURN, E.TIMER, E.START, E.FINISH, E.DISCONNECT, E.FORCE, E.CANCEL, E.CONNECT_OK, E.CONNECT_ERR,
              E.D_HELLO, E.D_CONNECT, E.D_GARBAGE, E.D_DISCREQ, E.D_DISCRESP, E.D_MSG, E.D_BADPAYLOAD, E.EOF, E.RESET,
              E.WRITEFAIL, E.FLUSH, E.RESOLVE_OK, E.RESOLVE_ERR]
# reduced alphabet of the 4-event exploration (thorough tier)
ALPHA_Q = [E.DRAIN, E.TURN, E.TIMER, E.START, E.FINISH, E.DISCONNECT, E.FORCE, E.CANCEL, E.CONNECT_OK, E.CONNECT_ERR,
           E.D_HELLO, E.D_CONNECT, E.D_GARBAGE, E.D_DISCREQ, E.EOF, E.RESET, E.WRITEFAIL, E.RESOLVE_OK]
ALPHA = ALPHA_Q if shard_int("QA", 0) else ALPHA_FULL
NA = len(ALPHA)
SH0 = shard_int("SH0", 0)
SH1 = shard_int("SH1", -1)  # thorough tier: the second event is fixed per shard as well
STAGE = shard_int("STAGE", 0)
NOISE = shard_int("NOISE", 0)  # 1: encrypted transport (the scenario starts with finish_connection parked on the noise handshake)
NEEDS_NOISE_PATCHES = True
PSK = "QRTIErOb/fcE9Ukd/5qA3RGYMn0Y+p06U58SCtOXvPc="


def _mon_flag(viol: list):
    def mon(s: Scenario) -> None:
        c = s.conn
        if c.is_connected != (c.connection_state is CONNECTED):
            viol.append("is_connected != (state is CONNECTED)")
    return mon


def _run(events: list) -> bool:
    track.entered()
    viol: list = []
    s = Scenario(STAGE, world_kw={"noise_psk": PSK} if NOISE else None)
    try:
        s.monitors.append(_mon_flag(viol))
        s.observe()
        for a in events:
            ev = ALPHA[concretize(a, NA - 1)]
            if not s.apply(ev):
                return track.pruned()  # event not enabled here
        s.settle()
        if track.reached():
            return False
        w = s.w
        if w.bad_transition:
            p, n = w.bad_transition[0]
            sig = "C05/closed-overwritten-by-connect-phase" if p is CLOSED and n in (OPENED, CONNECTED) else None
            return track.fail(f"illegal state transition {p.name}->{n.name}; trace={s.trace}; log={[(a.name, b.name) for a, b in w.state_log]}", sig)
        if viol:
            return track.fail(f"{viol[0]}; trace={s.trace}")
        # a phase returns normally only while the state it establishes is in force
        for kind, st in s.returned_state:
            if kind == "start" and st is not OPENED:
                return track.fail(f"start_connection returned normally in state {st.name}; trace={s.trace}")
            if kind == "finish" and st is not CONNECTED:
                return track.fail(f"finish_connection returned normally in state {st.name}; trace={s.trace}")
        # one connect attempt per object: a second start/finish call must be refused
        for kind in ("start", "finish"):
            ts = s.tasks_of(kind)
            normal = [t for t in ts if t.done() and not t.cancelled() and t.exception() is None]
            if len(normal) > 1:
                return track.fail(f"{kind}_connection succeeded twice on one connection object; trace={s.trace}")
        return True
    finally:
        s.close()


def h05_3(a0: int, a1: int, a2: int) -> bool:
    """
    pre: a0 == SH0
    pre: 0 <= a1 < NA and 0 <= a2 < NA
    post: _
    """
    return _run([a0, a1, a2])


def h05_4(a0: int, a1: int, a2: int, a3: int) -> bool:
    """
    pre: a0 == SH0
    pre: 0 <= a1 < NA and 0 <= a2 < NA and 0 <= a3 < NA
    pre: SH1 < 0 or a1 == SH1
    post: _
    """
    return _run([a0, a1, a2, a3])


def _mk(stage: int, noise: int):
    return lambda: Scenario(stage, world_kw={"noise_psk": PSK} if noise else None)


def _enabled_first(stage: int, noise: int = 0, alpha=None) -> list:
    """first events that can be enabled at a stage (computed natively; pruning only saves time)."""
    out = []
    for i, ev in enumerate(alpha or ALPHA_FULL):
        s = _mk(stage, noise)()
        try:
            if s.apply(ev):
                out.append(i)
        finally:
            s.close()
    return out


def shards(tier: str) -> list:
    out = []
    quick = tier == "quick"
    stages = [E.ST_FRESH, E.ST_CONNECTING, E.ST_OPENED, E.ST_HELLO_SENT, E.ST_CONNECTED, E.ST_DISCONNECTING, E.ST_RESOLVING, E.ST_RESOLVING_MDNS]
    alpha = ALPHA_Q if quick else ALPHA_FULL
    for st, nz in [(x, 0) for x in stages] + [(E.ST_HELLO_SENT, 1)]:
        for i in _enabled_first(st, nz, alpha):
            out.append({"fn": "h05_3", "env": {"STAGE": st, "SH0": i, "NOISE": nz, "QA": 1 if quick else 0}, "cond_timeout": 600 if quick else 1500,
                        "path_timeout": 60,
                        "desc": f"stage {E.STAGE_NAMES[st]}{' (noise: handshake pending)' if nz else ''}, first event {E.NAMES[alpha[i]]}, then 2 symbolic events ({len(alpha)}-event alphabet)"})
    if not quick:
        deep = [(E.ST_CONNECTING, 0), (E.ST_HELLO_SENT, 0), (E.ST_CONNECTED, 0), (E.ST_DISCONNECTING, 0), (E.ST_HELLO_SENT, 1)]
        for st, nz in deep:
            for i, j in E.enabled_pairs(_mk(st, nz), ALPHA_Q):
                out.append({"fn": "h05_4", "env": {"STAGE": st, "SH0": i, "SH1": j, "NOISE": nz, "QA": 1}, "cond_timeout": 1500, "path_timeout": 60,
                            "desc": f"stage {E.STAGE_NAMES[st]}{' (noise)' if nz else ''}, events {E.NAMES[ALPHA_Q[i]]}, {E.NAMES[ALPHA_Q[j]]}, then 2 symbolic events ({len(ALPHA_Q)}-event alphabet)"})
    return out


BOUNDS = {
    "quick": "8 lifecycle stages (+ noise handshake stage) x 3 events from an 18-event alphabet (thorough: 23 events) (user calls, device frames incl. same-chunk combinations, EOF/reset/write failure, cancel, loop turn / drain / next timer); plaintext transport; login=True",
    "thorough": "the quick exploration plus every sequence of 4 events from an 18-event alphabet after the stages connecting, hello sent (plaintext and noise), connected, disconnecting",
}
OUTSIDE = ["sequences longer than the bound", "noise transport (state machine is transport independent; noise handshake paths are C03/C04/C09)", "real socket timing"]
ASSUMPTIONS = [
    "SimLoop = real asyncio scheduler with virtual clock; SimTransport models selector-transport close/EOF/fatal-error delivery",
    "resolver and happy-eyeballs connect are stubs completing when the scenario says so",
    "schedule integers are concretised by solver forks; every combination inside the bound is a decided path",
]
EXPLANATION = "C05: monitor on every _set_connection_state assignment (forward-only, CLOSED final), is_connected flag after every event and loop iteration, phase return states, single use."
