"""C07 -- stop callback fires exactly once per established session, with the right reason."""
from __future__ import annotations

from vf import engine as E
from vf import track
from vf.engine import Scenario
from vf.harness.common import concretize, shard_int
from vf.scen import CLOSED, CONNECTED

PROPERTY = "C07"

ALPHA_FULL = [E.DRAIN, E.TURN, E.TIMER, E.LONGWAIT, E.DISCONNECT, E.FORCE, E.CANCEL, E.CONNECT_OK,
              E.D_HELLO, E.D_CONNECT, E.D_GARBAGE, E.D_DISCREQ, E.D_DISCRESP, E.D_MSG, E.D_BADPAYLOAD, E.EOF, E.RESET,
              E.WRITEFAIL, E.FLUSH, E.D_PINGREQ, E.FINISH]
# reduced alphabet of the 4-event exploration (thorough tier)
ALPHA_Q = [E.DRAIN, E.TURN, E.TIMER, E.LONGWAIT, E.DISCONNECT, E.FORCE, E.D_HELLO, E.D_CONNECT, E.D_GARBAGE, E.D_DISCREQ,
           E.D_DISCRESP, E.D_MSG, E.EOF, E.RESET, E.WRITEFAIL, E.D_PINGREQ]
# quick tier, 3 events
ALPHA_Q3 = [E.DRAIN, E.TURN, E.TIMER, E.LONGWAIT, E.DISCONNECT, E.FORCE, E.D_HELLO, E.D_CONNECT, E.D_GARBAGE, E.D_DISCREQ,
            E.D_DISCRESP, E.D_MSG, E.EOF, E.RESET, E.WRITEFAIL, E.FLUSH, E.D_PINGREQ, E.FINISH]
_QA = shard_int("QA", 0)
ALPHA = ALPHA_Q if _QA == 1 else (ALPHA_Q3 if _QA == 2 else ALPHA_FULL)
NA = len(ALPHA)
SH0 = shard_int("SH0", 0)
SH1 = shard_int("SH1", -1)  # thorough tier: the second event is fixed per shard as well
STAGE = shard_int("STAGE", 0)
NOISE = shard_int("NOISE", 0)  # 1: encrypted transport (the scenario starts with finish_connection parked on the noise handshake)
NEEDS_NOISE_PATCHES = True
PSK = "QRTIErOb/fcE9Ukd/5qA3RGYMn0Y+p06U58SCtOXvPc="
FATAL_FRAMES = (E.D_GARBAGE, E.D_BADPAYLOAD)

F, M, T = 0, 1, 2  # graceful initiation before the close: no / tie (don't care) / yes


class _Ref:
    """reference bookkeeping for 'a graceful disconnect had been initiated before the connection closed'."""

    def __init__(self, s: Scenario):
        self.s = s
        self.graceful = F
        self.disc_spawned = False  # a disconnect() call exists whose coroutine has not taken its first step

    def _closed(self) -> bool:
        return self.s.conn.connection_state is CLOSED

    def up(self, v: int) -> None:
        if v > self.graceful:
            self.graceful = v

    def before_event(self, ev: int) -> None:
        s = self.s
        if self._closed():
            return
        if ev == E.FORCE:
            self.up(T)
        elif ev == E.DISCONNECT:
            c = s.conn
            if c.connection_state is CONNECTED and c._finish_connect_future is None and not s._phase_pending():
                self.disc_spawned = True
            else:
                self.up(M)  # issued while a connect phase is in flight: what "before" means is open

    def before_chunk(self, evs: list) -> None:
        # frames of one chunk are handled in order until the connection closes
        if self._closed():
            return
        tr = self.s.w.transport
        write_fails = tr is not None and tr.fail_writes is not None
        for ev in evs:
            if ev in FATAL_FRAMES:
                return
            if ev == E.D_PINGREQ and write_fails:
                return  # the reply cannot be written: the connection closes here (not a graceful cause)
            if ev == E.D_DISCREQ:
                if self.s.conn.connection_state is CONNECTED:
                    self.up(T)
                else:
                    self.up(M)
                return

    def after_iteration(self, was_closed: bool) -> None:
        # the disconnect coroutine takes its first step in the first loop iteration after the call
        if self.disc_spawned:
            self.disc_spawned = False
            if not was_closed and not self._closed():
                self.up(T)
            else:
                self.up(M)

    def after_event_closed_check(self) -> None:
        if self.disc_spawned and self._closed():
            # another cause closed the connection in the very turn of the disconnect() call: tie
            self.disc_spawned = False
            self.up(M)


def _run(events: list) -> bool:
    track.entered()
    s = Scenario(STAGE, world_kw={"noise_psk": PSK} if NOISE else None)
    try:
        ref = _Ref(s)
        if STAGE == E.ST_DISCONNECTING:
            ref.graceful = T  # disconnect() already took its first step in the stage prefix
        over = []

        def mon(sc: Scenario) -> None:
            if len(sc.w.stops) > 1:
                over.append(list(sc.w.stops))

        s.monitors.append(mon)
        for a in events:
            ev = ALPHA[concretize(a, NA - 1)]
            was_closed = s.conn.connection_state is CLOSED
            if ev not in E.DEVICE_BYTES and s.pending_evs:
                # the pending chunk is delivered before any non-device event
                ref.before_chunk(s.pending_evs)
                s.flush()
                ref.after_event_closed_check()
                if ev == E.FLUSH:
                    s.trace.append("FLUSH")
                    continue
            ref.before_event(ev)
            if not s.apply(ev):
                return track.pruned()  # event not enabled here
            if ev in (E.DRAIN, E.TURN, E.TIMER, E.LONGWAIT):
                ref.after_iteration(was_closed)
            else:
                ref.after_event_closed_check()
        if s.pending_evs:
            ref.before_chunk(s.pending_evs)
        was_closed = s.conn.connection_state is CLOSED
        s.settle()
        ref.after_iteration(was_closed)
        if track.reached():
            return False
        w = s.w
        reached_connected = any(n is CONNECTED for _p, n in w.state_log)
        closed = s.conn.connection_state is CLOSED
        stops = w.stops
        if over or len(stops) > 1:
            return track.fail(f"stop callback invoked {len(stops)} times; trace={s.trace}")
        if not reached_connected and stops:
            return track.fail(f"stop callback invoked although the connection never reached CONNECTED; trace={s.trace}")
        if reached_connected and closed and len(stops) != 1:
            return track.fail(f"connection was CONNECTED and is closed but the stop callback ran {len(stops)} times; trace={s.trace}")
        if reached_connected and not closed and stops:
            return track.fail(f"stop callback invoked while the connection is still open; trace={s.trace}")
        if stops:
            g = ref.graceful
            if g == T and stops[0] is not True:
                return track.fail(f"graceful disconnect was initiated before the close but stop callback got {stops[0]}; trace={s.trace}")
            if g == F and stops[0] is not False:
                return track.fail(f"no graceful disconnect was initiated but stop callback got {stops[0]}; trace={s.trace}")
        return True
    finally:
        s.close()


def h07_3(a0: int, a1: int, a2: int) -> bool:
    """
    pre: a0 == SH0
    pre: 0 <= a1 < NA and 0 <= a2 < NA
    post: _
    """
    return _run([a0, a1, a2])


def h07_4(a0: int, a1: int, a2: int, a3: int) -> bool:
    """
    pre: a0 == SH0
    pre: 0 <= a1 < NA and 0 <= a2 < NA and 0 <= a3 < NA
    pre: SH1 < 0 or a1 == SH1
    post: _
    """
    return _run([a0, a1, a2, a3])


def _mk(stage: int, noise: int):
    return lambda: Scenario(stage, world_kw={"noise_psk": PSK} if noise else None)


def _enabled_first(stage: int, noise: int = 0, alpha=None) -> list:
    out = []
    for i, ev in enumerate(alpha or ALPHA_FULL):
        s = _mk(stage, noise)()
        try:
            if s.apply(ev):
                out.append(i)
        finally:
            s.close()
    return out


def shards(tier: str) -> list:
    out = []
    quick = tier == "quick"
    stages = [E.ST_OPENED, E.ST_HELLO_SENT, E.ST_CONNECTED, E.ST_DISCONNECTING] if quick else \
        [E.ST_CONNECTING, E.ST_OPENED, E.ST_HELLO_SENT, E.ST_CONNECTED, E.ST_DISCONNECTING]
    alpha = ALPHA_Q3 if quick else ALPHA_FULL
    for st, nz in [(x, 0) for x in stages] + [(E.ST_HELLO_SENT, 1)]:
        for i in _enabled_first(st, nz, alpha):
            out.append({"fn": "h07_3", "env": {"STAGE": st, "SH0": i, "NOISE": nz, "QA": 2 if quick else 0}, "cond_timeout": 600 if quick else 1500, "path_timeout": 60,
                        "desc": f"stage {E.STAGE_NAMES[st]}{' (noise: handshake pending)' if nz else ''}, first event {E.NAMES[alpha[i]]}, then 2 symbolic events ({len(alpha)}-event alphabet)"})
    if not quick:
        for st, nz in [(E.ST_HELLO_SENT, 0), (E.ST_CONNECTED, 0), (E.ST_DISCONNECTING, 0)]:
            for i, j in E.enabled_pairs(_mk(st, nz), ALPHA_Q):
                out.append({"fn": "h07_4", "env": {"STAGE": st, "SH0": i, "SH1": j, "NOISE": nz, "QA": 1}, "cond_timeout": 1500, "path_timeout": 60,
                            "desc": f"stage {E.STAGE_NAMES[st]}, events {E.NAMES[ALPHA_Q[i]]}, {E.NAMES[ALPHA_Q[j]]}, then 2 symbolic events (16-event alphabet)"})
    return out


BOUNDS = {"quick": "4 lifecycle stages (+ noise handshake stage) x 3 events from an 18-event alphabet (thorough: 21 events) (close causes: DisconnectRequest, disconnect(), force_disconnect(), EOF, reset, write failure, ping timeout via 7K of silence, protocol errors; same-chunk and same-turn combinations)",
          "thorough": "5 stages x 3 events (21-event alphabet) plus every sequence of 4 events from a 16-event alphabet after hello sent, connected, disconnecting"}
OUTSIDE = ["sequences longer than the bound", "noise transport"]
ASSUMPTIONS = ["SimLoop/SimTransport model of asyncio (see C05)",
               "reference for the argument: force_disconnect()/DisconnectRequest processed while open => True; disconnect() => True once its coroutine ran a loop iteration with the connection open; calls racing a close in the same turn, or issued while a connect phase is pending, are don't-care"]
EXPLANATION = "C07: count of stop-callback invocations vs whether CONNECTED was ever entered and the connection closed; argument vs the reference 'graceful initiated before close' (three-valued at ties)."
