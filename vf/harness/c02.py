"""C02 -- everything the client writes conforms to the documented wire format."""
from __future__ import annotations

from typing import List

from aioesphomeapi._frame_helper import plain_text as PT
from aioesphomeapi._frame_helper.plain_text import APIPlaintextFrameHelper

from vf import refcodec as R
from vf import track
from vf.harness.common import RecConn, RecTransport, base_loop, shard_int, shard_ints

PROPERTY = "C02"

# boundary payload lengths used with concrete filler (1->2->3 byte length varints, > 16384)
BOUNDARY = {3: 127, 4: 128, 5: 16383, 6: 16384, 7: 16385, 8: 65535, 9: 65536}


def _plain_helper():
    base_loop()
    cn = RecConn()
    h = APIPlaintextFrameHelper(connection=cn, client_info="c", log_name="x")
    tr = RecTransport()
    h.connection_made(tr)
    return h, tr


def h02b_varuint(v: int) -> bool:
    """
    pre: 0 <= v < 2**VBITS
    post: _
    """
    track.entered()
    got = PT._varuint_to_bytes(v)
    got_cached = PT.varuint_to_bytes(v)
    exp = bytes(R.enc_varint(v))
    if track.reached():
        return False
    if got != exp:
        return track.fail("varuint encoding differs from minimal LEB128")
    if got_cached != exp:
        return track.fail("cached varuint encoder differs from minimal LEB128")
    # and the implementation's own reader decodes it back
    base_loop()
    h = APIPlaintextFrameHelper(connection=RecConn(), client_info="c", log_name="x")
    h._buffer = got
    h._buffer_len = len(got)
    h._pos = 0
    back = h._read_varuint()
    if back != v or h._pos != len(got):
        return track.fail("_read_varuint(enc(v)) != v")
    return True


def _payload(cls: int, blob: bytes, off: int) -> bytes:
    if cls <= 2:
        return blob[off : off + cls]
    n = BOUNDARY[cls]
    # concrete filler with two symbolic bytes at the ends
    return blob[off : off + 1] + bytes([0xA5]) * (n - 2) + blob[off + 1 : off + 2]


def h02a_plain_write(t0: int, t1: int, t2: int, blob: bytes) -> bool:
    """
    pre: 0 <= t0 < 2**TBITS and 0 <= t1 < 2**TBITS and 0 <= t2 < 2**TBITS
    pre: len(blob) == 6
    post: _
    """
    track.entered()
    classes = shard_ints("CLS", "1")
    types = [t0, t1, t2][: len(classes)]
    packets = []
    for i, c in enumerate(classes):
        packets.append((types[i], _payload(c, blob, 2 * i)))
    h, tr = _plain_helper()
    h.write_packets(list(packets), False)
    if track.reached():
        return False
    if len(tr.writes) != 1:
        return track.fail("batch not written with exactly one transport.write")
    dec = R.dec_plain_stream_strict(tr.writes[0])
    if dec is None:
        return track.fail("written bytes are not a sequence of well-formed plaintext frames")
    if len(dec) != len(packets):
        return track.fail("number of frames differs")
    for (dt, dp), (pt, pp) in zip(dec, packets):
        if dt != pt or dp != pp:
            return track.fail("decoded frame differs from the packet given")
    return True


class _MemoModel:
    """functools.lru_cache as far as two writes can observe it: the same argument returns the very
    object that was returned before (maxsize 1024 is never reached here)."""

    def __init__(self, fn):
        self.fn = fn
        self.memo = []

    def __call__(self, arg):
        for k, v in self.memo:
            if k == arg:
                return v
        v = self.fn(arg)
        self.memo.append((arg, v))
        return v


def h02f_two_writes(t0: int, t1: int, blob: bytes) -> bool:
    """
    pre: 0 <= t0 < 2**TBITS and 0 <= t1 < 2**TBITS
    pre: len(blob) == 4
    post: _
    """
    # the same (length, type) varints are encoded again by a later call: results handed out earlier
    # must not be affected (the encoder is memoised and shared)
    track.entered()
    classes = shard_ints("CLS", "4,4")
    h, tr = _plain_helper()
    p0 = (t0, _payload(classes[0], blob, 0))
    p1 = (t1, _payload(classes[1], blob, 2))
    # CrossHair bypasses functools.lru_cache (it calls the wrapped function every time), which would
    # hide the sharing of cached results between calls: model the memoisation explicitly
    real_cached = PT.varuint_to_bytes
    PT.varuint_to_bytes = _MemoModel(PT._varuint_to_bytes)
    try:
        h.write_packets([p0], False)
        first = bytes(tr.writes[0]) if tr.writes else b""
        kept = tr.writes[0] if tr.writes else None
        h.write_packets([p1, p0], False)
    finally:
        PT.varuint_to_bytes = real_cached
    if track.reached():
        return False
    if len(tr.writes) != 2:
        return track.fail("two write_packets calls did not produce exactly two transport writes")
    if kept is not None and bytes(kept) != first:
        return track.fail("bytes handed to the transport by the first write changed after the second write")
    d0 = R.dec_plain_stream_strict(tr.writes[0])
    d1 = R.dec_plain_stream_strict(tr.writes[1])
    if d0 is None or d1 is None:
        return track.fail("a write is not a sequence of well-formed plaintext frames")
    if len(d0) != 1 or d0[0][0] != p0[0] or d0[0][1] != p0[1]:
        return track.fail("first write does not decode to its packet")
    if len(d1) != 2 or d1[0][0] != p1[0] or d1[0][1] != p1[1] or d1[1][0] != p0[0] or d1[1][1] != p0[1]:
        return track.fail("second write does not decode to its packets")
    return True


def h02e_send_messages(idx: int, n: int) -> bool:
    """
    pre: 0 <= idx < NCLS
    pre: 1 <= n <= 3
    post: _
    """
    import aioesphomeapi.connection as CN
    from vf.harness.common import connected_conn

    track.entered()
    conn, helper, _stops = connected_conn()
    i = concretize(idx, NCLS - 1)
    k = concretize(n, 3)
    cls = _CLASSES[i]
    msgs = []
    for j in range(k):
        other = _CLASSES[(i + 7 * j) % NCLS]
        msgs.append(other())
    msgs[0] = cls()
    conn.send_messages(tuple(msgs))
    if track.reached():
        return False
    if len(helper.writes) != 1:
        return track.fail("send_messages did not hand the batch to the frame helper in one write_packets call")
    pk = helper.writes[0]
    if len(pk) != k:
        return track.fail("number of packets differs from the number of messages")
    for (tid, payload), m in zip(pk, msgs):
        want = _PROTO_IDS[type(m).__name__]
        if tid != want:
            return track.fail(f"{type(m).__name__} sent with id {tid}, api.proto declares {want}")
        if payload != m.SerializeToString():
            return track.fail("payload differs from the message's serialisation")
    return True


def _proto_ids() -> dict:
    from vf.harness.c13 import proto_text_map

    return {n: i for n, (i, _s) in proto_text_map().items() if i}


from vf.harness.common import concretize  # noqa: E402
import aioesphomeapi.core as _CORE  # noqa: E402

_PROTO_IDS = _proto_ids()
_CLASSES = list(_CORE.MESSAGE_TYPE_TO_PROTO.values())
NCLS = len(_CLASSES)
TBITS = shard_int("TBITS", 35)
VBITS = shard_int("VBITS", 64)


def shards(tier: str) -> list:
    out = [{"fn": "h02b_varuint", "env": {"VBITS": 64}, "cond_timeout": 120, "desc": "varuint encode == minimal LEB128 and decodes back, v < 2^64"}]
    if tier == "quick":
        one = [0, 1, 2, 3, 4, 5, 6, 7]
        multi = [(0, 0), (1, 0), (0, 2), (2, 1), (4, 3), (1, 5), (6, 2), (1, 1, 1), (0, 2, 1), (2, 0, 4)]
        tb = 35
    else:
        one = list(range(10))
        multi = [(a, b) for a in range(8) for b in range(8)] + [(a, b, c) for a in (0, 1, 2, 4, 6) for b in (0, 2, 3, 5) for c in (0, 1, 7)]
        tb = 35
    for c in one:
        out.append({"fn": "h02a_plain_write", "env": {"CLS": str(c), "TBITS": 64}, "cond_timeout": 150,
                    "desc": f"plaintext write_packets, 1 packet, payload class {c}, type < 2^64"})
    for m in multi:
        out.append({"fn": "h02a_plain_write", "env": {"CLS": ",".join(map(str, m)), "TBITS": tb}, "cond_timeout": 240,
                    "desc": f"plaintext write_packets, payload classes {m}, types < 2^{tb}"})
    # two write calls on one helper (the varuint cache is shared between calls and helpers)
    for m in ([(4, 4), (3, 5)] if tier == "quick" else [(a, b) for a in (3, 4, 5, 6) for b in (3, 4, 5, 6)]):
        out.append({"fn": "h02f_two_writes", "env": {"CLS": ",".join(map(str, m)), "TBITS": 21}, "cond_timeout": 240,
                    "desc": f"two consecutive write_packets calls, payload classes {m}: each write decodes on its own"})
    out.append({"fn": "h02e_send_messages", "env": {}, "cond_timeout": 300, "desc": "APIConnection.send_messages: id and payload handed to the frame helper for every registered class, batches of 1-3, one write_packets call"})
    # noise transport (module c02n): nonce continuity and framing with the ideal AEAD, real cipher end to end
    from vf.harness import c02n

    for sh in c02n.shards(tier):
        sh = dict(sh)
        sh["module"] = "vf.harness.c02n"
        out.append(sh)
    return out


BOUNDS = {
    "quick": {"varuint": "v in [0, 2^64)", "plaintext batch": "1 packet: type < 2^64; 2-3 packets: types < 2^35; payload length classes 0,1,2 (symbolic bytes) and 127,128,16383,16384,16385 (two symbolic bytes + filler)"},
    "thorough": {"varuint": "v in [0, 2^64)", "plaintext batch": "as quick plus lengths 65535/65536 and all pairs of classes, 60 triples"},
}
OUTSIDE = ["batches of more than 3 packets", "payload lengths other than the listed classes", "protobuf byte encoding of message bodies (opaque payload)",
           "noise payloads of 65520 bytes or more (the 16-bit length fields cannot represent them)", "keys other than the two concrete test keys"]
ASSUMPTIONS = [
    "reference decoder vf/refcodec.py is the documented wire format (api.proto base-packets comment)",
    "CrossHair models of int/bytes/list and the plugin's linear encodings of & | ^ are exact",
    "noise: ideal-AEAD recorder for symbolic content (encrypt records nonce and plaintext), real cipher end-to-end against the independent responder vf/noise_ref.py",
]
EXPLANATION = "C02: oracle = exactly one transport.write whose bytes the strict independent decoder parses back to the packets given."
