"""C02 -- everything the client writes conforms to the documented wire format."""
from __future__ import annotations

from typing import List

from aioesphomeapi._frame_helper import plain_text as PT
from aioesphomeapi._frame_helper.plain_text import APIPlaintextFrameHelper

from vf import refcodec as R
from vf import track
from vf.harness.common import RecConn, RecTransport, base_loop, shard_int, shard_ints

PROPERTY = "C02"

# boundary payload lengths used with concrete filler (1->2->3 byte length varints, > 16384)
BOUNDARY = {3: 127, 4: 128, 5: 16383, 6: 16384, 7: 16385, 8: 65535, 9: 65536}


def _plain_helper():
    base_loop()
    cn = RecConn()
    h = APIPlaintextFrameHelper(connection=cn, client_info="c", log_name="x")
    tr = RecTransport()
    h.connection_made(tr)
    return h, tr


def h02b_varuint(v: int) -> bool:
    """
    pre: 0 <= v < 2**VBITS
    post: _
    """
    track.entered()
    got = PT._varuint_to_bytes(v)
    got_cached = PT.varuint_to_bytes(v)
    exp = bytes(R.enc_varint(v))
    if track.reached():
        return False
    if got != exp:
        return track.fail("varuint encoding differs from minimal LEB128")
    if got_cached != exp:
        return track.fail("cached varuint encoder differs from minimal LEB128")
    # and the implementation's own reader decodes it back
    base_loop()
    h = APIPlaintextFrameHelper(connection=RecConn(), client_info="c", log_name="x")
    h._buffer = got
    h._buffer_len = len(got)
    h._pos = 0
    back = h._read_varuint()
    if back != v or h._pos != len(got):
        return track.fail("_read_varuint(enc(v)) != v")
    return True


def _payload(cls: int, blob: bytes, off: int) -> bytes:
    if cls <= 2:
        return blob[off : off + cls]
    n = BOUNDARY[cls]
    # concrete filler with two symbolic bytes at the ends
    return blob[off : off + 1] + bytes([0xA5]) * (n - 2) + blob[off + 1 : off + 2]


def h02a_plain_write(t0: int, t1: int, t2: int, blob: bytes) -> bool:
    """
    pre: 0 <= t0 < 2**TBITS and 0 <= t1 < 2**TBITS and 0 <= t2 < 2**TBITS
    pre: len(blob) == 6
    post: _
    """
    track.entered()
    classes = shard_ints("CLS", "1")
    types = [t0, t1, t2][: len(classes)]
    packets = []
    for i, c in enumerate(classes):
        packets.append((types[i], _payload(c, blob, 2 * i)))
    h, tr = _plain_helper()
    h.write_packets(list(packets), False)
    if track.reached():
        return False
    if len(tr.writes) != 1:
        return track.fail("batch not written with exactly one transport.write")
    dec = R.dec_plain_stream_strict(tr.writes[0])
    if dec is None:
        return track.fail("written bytes are not a sequence of well-formed plaintext frames")
    if len(dec) != len(packets):
        return track.fail("number of frames differs")
    for (dt, dp), (pt, pp) in zip(dec, packets):
        if dt != pt or dp != pp:
            return track.fail("decoded frame differs from the packet given")
    return True


TBITS = shard_int("TBITS", 35)
VBITS = shard_int("VBITS", 64)


def shards(tier: str) -> list:
    out = [{"fn": "h02b_varuint", "env": {"VBITS": 64}, "cond_timeout": 120, "desc": "varuint encode == minimal LEB128 and decodes back, v < 2^64"}]
    if tier == "quick":
        one = [0, 1, 2, 3, 4, 5, 6, 7]
        multi = [(0, 0), (1, 0), (0, 2), (2, 1), (4, 3), (1, 5), (6, 2), (1, 1, 1), (0, 2, 1), (2, 0, 4)]
        tb = 35
    else:
        one = list(range(10))
        multi = [(a, b) for a in range(8) for b in range(8)] + [(a, b, c) for a in (0, 1, 2, 4, 6) for b in (0, 2, 3, 5) for c in (0, 1, 7)]
        tb = 35
    for c in one:
        out.append({"fn": "h02a_plain_write", "env": {"CLS": str(c), "TBITS": 64}, "cond_timeout": 150,
                    "desc": f"plaintext write_packets, 1 packet, payload class {c}, type < 2^64"})
    for m in multi:
        out.append({"fn": "h02a_plain_write", "env": {"CLS": ",".join(map(str, m)), "TBITS": tb}, "cond_timeout": 240,
                    "desc": f"plaintext write_packets, payload classes {m}, types < 2^{tb}"})
    return out


BOUNDS = {
    "quick": {"varuint": "v in [0, 2^64)", "plaintext batch": "1 packet: type < 2^64; 2-3 packets: types < 2^35; payload length classes 0,1,2 (symbolic bytes) and 127,128,16383,16384,16385 (two symbolic bytes + filler)"},
    "thorough": {"varuint": "v in [0, 2^64)", "plaintext batch": "as quick plus lengths 65535/65536 and all pairs of classes, 60 triples"},
}
OUTSIDE = ["batches of more than 3 packets", "payload lengths other than the listed classes", "protobuf byte encoding of message bodies (opaque payload)"]
ASSUMPTIONS = [
    "reference decoder vf/refcodec.py is the documented wire format (api.proto base-packets comment)",
    "CrossHair models of int/bytes/list and the plugin's linear encodings of & | ^ are exact",
]
EXPLANATION = "C02: oracle = exactly one transport.write whose bytes the strict independent decoder parses back to the packets given."
