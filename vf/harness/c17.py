"""C17 -- one converted callback per subscribed message; camera images reassemble per key."""
from __future__ import annotations

import asyncio

import aioesphomeapi.client_callbacks as CB
import aioesphomeapi.model as M
import aioesphomeapi.model_conversions as MC
from aioesphomeapi import api_pb2 as pb
from aioesphomeapi.model import CameraState, LogLevel, cached_fields
from google.protobuf.descriptor import FieldDescriptor as FD

from vf import pbstub, track
from vf.cliworld import ClientWorld, tname
from vf.harness.common import concretize, same, shard_int, shard_ints

PROPERTY = "C17"

U32 = 2**32
A48 = 2**48

# (protobuf class, model class) pairs as the repository declares them -- read before the doubles are bound
STATE_TYPES = list(MC.SUBSCRIBE_STATES_RESPONSE_TYPES.items())
NSTATE = len(STATE_TYPES)

PB_ALL = tuple(p for p, _ in STATE_TYPES) + (
    pb.CameraImageResponse, pb.SubscribeStatesRequest,
    pb.SubscribeLogsRequest, pb.SubscribeLogsResponse,
    pb.SubscribeHomeassistantServicesRequest, pb.HomeassistantServiceResponse,
    pb.SubscribeHomeAssistantStatesRequest, pb.SubscribeHomeAssistantStateResponse,
    pb.SubscribeBluetoothLEAdvertisementsRequest, pb.UnsubscribeBluetoothLEAdvertisementsRequest,
    pb.BluetoothLEAdvertisementResponse, pb.BluetoothLERawAdvertisementsResponse,
    pb.SubscribeBluetoothConnectionsFreeRequest, pb.BluetoothConnectionsFreeResponse,
    pb.SubscribeVoiceAssistantRequest, pb.VoiceAssistantRequest, pb.VoiceAssistantResponse,
    pb.VoiceAssistantAudio, pb.VoiceAssistantAnnounceFinished,
)

# The doubles are bound once per process, at import (outside any path); the bindings are the same on
# every path, the token registry is reset at the start of every path.
_INSTALL = pbstub.install(*PB_ALL)
S = _INSTALL.__enter__()


# ----------------------------------------------------------------------------------------------
# H17a: camera reassembly -- inductive step on on_state_msg, and end-to-end through subscribe_states
# ----------------------------------------------------------------------------------------------
def h17a_camera_step(k1: int, k2: int, n1: int, n2: int, c: bytes, mk: int, data: bytes, dlen: int, done: bool) -> bool:
    """
    pre: 0 <= k1 < U32 and 0 <= k2 < U32 and k1 != k2 and 0 <= mk < U32
    pre: -1 <= n1 <= 2 and -1 <= n2 <= 2
    pre: len(c) == 6 and len(data) == 2
    pre: 0 <= dlen <= 2
    post: _
    """
    track.entered()
    pbstub.reset_registry()
    # arbitrary pre-state: each of two distinct symbolic keys is absent (-1) or maps to 0..2 chunks
    m1 = concretize(n1 + 1, 3) - 1
    m2 = concretize(n2 + 1, 3) - 1
    chunks1 = [c[0:2], c[2:3]][: max(m1, 0)]
    chunks2 = [c[3:4], c[4:6]][: max(m2, 0)]
    items = []
    if m1 >= 0:
        items.append((k1, list(chunks1)))
    if m2 >= 0:
        items.append((k2, list(chunks2)))
    image_stream = dict(items)  # symbolic keys: CrossHair's dict model under analysis, a plain dict natively
    d = data[: concretize(dlen, 2)]
    calls = []
    msg = S[pb.CameraImageResponse](key=mk, data=d, done=done)
    CB.on_state_msg(calls.append, image_stream, msg)
    if track.reached():
        return False
    # reference: per-key concatenation
    hit1 = m1 >= 0 and mk == k1
    hit2 = (not hit1) and m2 >= 0 and mk == k2
    before = chunks1 if hit1 else (chunks2 if hit2 else [])
    parts = list(before) + [d]
    remaining = []  # (key, chunks) the dict must hold afterwards
    if m1 >= 0 and not hit1:
        remaining.append((k1, chunks1))
    if m2 >= 0 and not hit2:
        remaining.append((k2, chunks2))
    if done:
        if len(calls) != 1:
            return track.fail(f"final chunk produced {len(calls)} callbacks")
        st = calls[0]
        if type(st) is not CameraState:
            return track.fail(f"callback carries {tname(st)}, not CameraState")
        if st.key != mk:
            return track.fail("completed image reported under another key")
        if st.data != b"".join(parts):
            return track.fail("completed image is not the concatenation of that key's chunks since its previous completion")
    else:
        if calls:
            return track.fail("a non-final chunk produced a callback")
        remaining.append((mk, parts))
    if len(image_stream) != len(remaining):
        return track.fail(f"buffer holds {len(image_stream)} keys afterwards, the per-key model says {len(remaining)} (another camera's chunks lost / completed key kept)")
    for k, chunks in remaining:
        have = image_stream.get(k)
        if have is None:
            return track.fail("chunks buffered for a key were dropped by a message of another key")
        if len(have) != len(chunks):
            return track.fail("number of buffered chunks of a key differs from the per-key model")
        for x, y in zip(have, chunks):
            if x != y:
                return track.fail("buffered chunk content of a key differs from the per-key model")
    return True


CAM_KEYS = (1, 0xFFFFFFFE)


def h17a_camera_stream(s0: int, s1: int, s2: int, s3: int, e0: bool, e1: bool, e2: bool, e3: bool, blob: bytes, sw: int) -> bool:
    """
    pre: 0 <= s0 <= 1 and 0 <= s1 <= 1 and 0 <= s2 <= 1 and 0 <= s3 <= 1
    pre: len(blob) == 8
    pre: 0 <= sw <= 4
    post: _
    """
    track.entered()
    pbstub.reset_registry()
    n = shard_int("NMSG", 3)
    world = ClientWorld()
    try:
        calls = []
        world.cli.subscribe_states(calls.append)
        plan = list(zip([s0, s1, s2, s3], [e0, e1, e2, e3]))[:n]
        # an unrelated switch state is interleaved at a fork-chosen position (must not disturb reassembly)
        swpos = concretize(sw, n)
        buf = {CAM_KEYS[0]: [], CAM_KEYS[1]: []}
        expected = []
        for i, (sel, end) in enumerate(plan):
            if i == swpos:
                world.deliver(S[pb.SwitchStateResponse](key=7, state=True))
                expected.append(("switch", 7, None))
            key = CAM_KEYS[concretize(sel, 1)]
            d = blob[2 * i: 2 * i + 2]
            world.deliver(S[pb.CameraImageResponse](key=key, data=d, done=end))
            buf[key].append(d)
            if end:
                expected.append(("camera", key, b"".join(buf[key])))
                buf[key] = []
        if track.reached():
            return False
        if len(calls) != len(expected):
            return track.fail(f"{len(calls)} callbacks for a stream that completes {len(expected)} states")
        for got, (kind, key, img) in zip(calls, expected):
            if kind == "switch":
                if type(got) is not M.SwitchState or got.key != key or got.state is not True:
                    return track.fail("interleaved switch state not delivered in arrival order")
            else:
                if type(got) is not CameraState or got.key != key:
                    return track.fail("completed images are not reported in completion order under their own key")
                if got.data != img:
                    return track.fail("completed image differs from the concatenation of that key's chunks since its previous completion")
        if world.n_sent() != 1:
            return track.fail("state messages made the client write something")
        return True
    finally:
        world.close()


def h17a_camera_two_subs(s0: int, s1: int, s2: int, s3: int, e0: bool, e1: bool, e2: bool, e3: bool, blob: bytes) -> bool:
    """
    pre: 0 <= s0 <= 1 and 0 <= s1 <= 1 and 0 <= s2 <= 1 and 0 <= s3 <= 1
    pre: len(blob) == 8
    post: _
    """
    # two state subscriptions on one client (e.g. two consumers): each gets every completed image once,
    # and each image is the concatenation of that key's chunks -- the reassembly state of one
    # subscription must not leak into the other
    track.entered()
    pbstub.reset_registry()
    n = shard_int("NMSG", 3)
    world = ClientWorld()
    try:
        calls_a, calls_b = [], []
        world.cli.subscribe_states(calls_a.append)
        world.cli.subscribe_states(calls_b.append)
        plan = list(zip([s0, s1, s2, s3], [e0, e1, e2, e3]))[:n]
        buf = {CAM_KEYS[0]: [], CAM_KEYS[1]: []}
        expected = []
        for i, (sel, end) in enumerate(plan):
            key = CAM_KEYS[concretize(sel, 1)]
            d = blob[2 * i: 2 * i + 2]
            world.deliver(S[pb.CameraImageResponse](key=key, data=d, done=end))
            buf[key].append(d)
            if end:
                expected.append((key, b"".join(buf[key])))
                buf[key] = []
        if track.reached():
            return False
        for nm, calls in (("first", calls_a), ("second", calls_b)):
            if len(calls) != len(expected):
                return track.fail(f"{nm} subscription: {len(calls)} callbacks for a stream that completes {len(expected)} images")
            for got, (key, img) in zip(calls, expected):
                if type(got) is not CameraState or got.key != key:
                    return track.fail(f"{nm} subscription: completed images not reported in completion order under their own key")
                if got.data != img:
                    return track.fail(f"{nm} subscription: completed image differs from the concatenation of that key's chunks since its previous completion")
        return True
    finally:
        world.close()


# ----------------------------------------------------------------------------------------------
# H17b: every state type -> exactly one callback of the mapped model class with the message's values
# ----------------------------------------------------------------------------------------------
INT_TYPES = (FD.TYPE_FIXED32, FD.TYPE_UINT32, FD.TYPE_INT32, FD.TYPE_SINT32, FD.TYPE_UINT64, FD.TYPE_FIXED64)


def _state_plan(pbcls, model):
    """field name -> source tag; computed natively from descriptor + dataclass (concrete)."""
    pf = {f.name: f for f in pbcls.DESCRIPTOR.fields}
    plan = {}
    ints, bools, strs, floats, enums = ["i1", "i2", "i3"], ["b1", "b2", "b3"], ["s1"], ["f1"], ["en"]
    for f in cached_fields(model):
        p = pf[f.name]
        conv = f.metadata.get("converter")
        if f.name == "key":
            plan[f.name] = ("sym", "key")
        elif p.type == FD.TYPE_ENUM and conv is not None:
            ecls = conv.__self__
            plan[f.name] = ("enum", enums.pop(0), ecls) if enums else ("enum0", None, ecls)
        elif p.type in INT_TYPES and conv is None:
            plan[f.name] = ("sym", ints.pop(0)) if ints else ("default", 0)
        elif p.type == FD.TYPE_BOOL and conv is None:
            plan[f.name] = ("sym", bools.pop(0)) if bools else ("default", False)
        elif p.type == FD.TYPE_STRING and conv is None:
            plan[f.name] = ("sym", strs.pop(0)) if strs else ("const", "t")
        elif p.type == FD.TYPE_FLOAT and conv is None:
            plan[f.name] = ("sym", floats.pop(0)) if floats else ("const", 0.5)
        elif p.type == FD.TYPE_FLOAT:
            plan[f.name] = ("default", 0.0)  # fix_float_single_double_conversion is C14's subject; 0.0 passes unchanged
        else:
            plan[f.name] = ("default", p.default_value)
    return plan


STATE_PLANS = [_state_plan(p, m) for p, m in STATE_TYPES]


def _enum_expect(ecls, v):
    for member in ecls:
        if member.value == v:
            return member
    return None


def h17b_state(ti: int, key: int, i1: int, i2: int, i3: int, b1: bool, b2: bool, b3: bool, s1: str, f1: float, en: int) -> bool:
    """
    pre: 0 <= ti
    pre: 0 <= key < U32
    pre: -2**31 <= i1 < U32 and -2**31 <= i2 < U32 and -2**31 <= i3 < U32
    pre: len(s1) <= 2
    pre: -1 <= en <= 12
    post: _
    """
    track.entered()
    pbstub.reset_registry()
    types = shard_ints("TYPES", "1")
    t = types[concretize(ti, len(types) - 1)]
    pbcls, model = STATE_TYPES[t]
    plan = STATE_PLANS[t]
    vals = {"key": key, "i1": i1, "i2": i2, "i3": i3, "b1": b1, "b2": b2, "b3": b3, "s1": s1, "f1": f1, "en": en}
    world = ClientWorld()
    try:
        calls = []
        world.cli.subscribe_states(calls.append)
        msg = S[pbcls]()
        for name, p in plan.items():
            if p[0] in ("sym", "enum"):
                setattr(msg, name, vals[p[1]])
            elif p[0] == "const":
                setattr(msg, name, p[1])
        world.deliver(msg)
        if track.reached():
            return False
        if len(calls) != 1:
            return track.fail(f"{pbcls.__name__}: {len(calls)} callbacks for one message")
        st = calls[0]
        if type(st) is not model:
            return track.fail(f"{pbcls.__name__}: callback carries {tname(st)}, mapped model is {model.__name__}")
        for name, p in plan.items():
            got = getattr(st, name)
            if p[0] == "sym":
                ok = same(got, vals[p[1]])
            elif p[0] in ("const", "default"):
                ok = same(got, p[1])
            elif p[0] == "enum":
                ok = got is _enum_expect(p[2], en)
            else:
                ok = got is _enum_expect(p[2], 0)
            if not ok:
                return track.fail(f"{model.__name__}.{name} does not carry the message's value")
        if world.n_sent() != 1:
            return track.fail("a state message made the client write something")
        return True
    finally:
        world.close()


# ----------------------------------------------------------------------------------------------
# H17c: subscribe / unsubscribe points in a stream
# ----------------------------------------------------------------------------------------------
SUB_STATES, SUB_LOGS, SUB_SERVICE, SUB_HA, SUB_ADV, SUB_RAW, SUB_FREE = range(7)
SUB_NAMES = ["subscribe_states", "subscribe_logs", "subscribe_service_calls", "subscribe_home_assistant_states",
             "subscribe_bluetooth_le_advertisements", "subscribe_bluetooth_le_raw_advertisements",
             "subscribe_bluetooth_connections_free"]
SUB_REQ = [pb.SubscribeStatesRequest, pb.SubscribeLogsRequest, pb.SubscribeHomeassistantServicesRequest,
           pb.SubscribeHomeAssistantStatesRequest, pb.SubscribeBluetoothLEAdvertisementsRequest,
           pb.SubscribeBluetoothLEAdvertisementsRequest, pb.SubscribeBluetoothConnectionsFreeRequest]
SUB_HAS_UNSUB = [False, False, False, False, True, True, True]


def _sub_message(kind, j, i, n, b, st, blob):
    """the j-th device message of the subscribed type and what the user callback must receive for it."""
    text = st if j == 0 else "m" + str(j)
    raw = blob[2 * j: 2 * j + 2]
    if kind == SUB_STATES:
        return S[pb.SwitchStateResponse](key=i, state=b), ("state", i, b)
    if kind == SUB_LOGS:
        return S[pb.SubscribeLogsResponse](level=n, message=raw, send_failed=b), ("log", n, raw, b)
    if kind == SUB_SERVICE:
        m = S[pb.HomeassistantServiceResponse](service=text, is_event=b)
        m.data.add(key="k", value=text)
        m.variables.add(key="v", value="w")
        return m, ("service", text, b)
    if kind == SUB_HA:
        return S[pb.SubscribeHomeAssistantStateResponse](entity_id=text, attribute="a" + str(j), once=b), ("ha", text, "a" + str(j), b)
    if kind == SUB_ADV:
        return S[pb.BluetoothLEAdvertisementResponse](address=i, rssi=n, address_type=j, name=b"nm"), ("adv", i, n, j)
    if kind == SUB_RAW:
        m = S[pb.BluetoothLERawAdvertisementsResponse]()
        m.advertisements.add(address=i, rssi=n, address_type=j, data=raw)
        return m, ("raw", i, n, j, raw)
    return S[pb.BluetoothConnectionsFreeResponse](free=i, limit=n), ("free", i, n)


def _sub_match(kind, got, exp, with_req):
    """does the recorded user-callback invocation `got` carry the values `exp` of the message?"""
    tag = got[0]
    if kind == SUB_STATES:
        st = got[1]
        return tag == "cb" and type(st) is M.SwitchState and st.key == exp[1] and same(st.state, exp[2])
    if kind == SUB_LOGS:
        m = got[1]
        return tag == "cb" and type(m) is S[pb.SubscribeLogsResponse] and m.level == exp[1] and m.message == exp[2] and same(m.send_failed, exp[3])
    if kind == SUB_SERVICE:
        c = got[1]
        return (tag == "cb" and type(c) is M.HomeassistantServiceCall and c.service == exp[1] and same(c.is_event, exp[2])
                and len(c.data) == 1 and c.data["k"] == exp[1] and len(c.data_template) == 0 and len(c.variables) == 1 and c.variables["v"] == "w")
    if kind == SUB_HA:
        # `once` requests go to on_state_request when one was given, everything else to on_state_sub
        want = "req" if (with_req and exp[3]) else "cb"
        return tag == want and got[1] == exp[1] and got[2] == exp[2]
    if kind == SUB_ADV:
        a = got[1]
        return (tag == "cb" and type(a) is M.BluetoothLEAdvertisement and a.address == exp[1] and a.rssi == exp[2] and a.address_type == exp[3]
                and a.name == "nm" and a.service_uuids == [] and len(a.service_data) == 0 and len(a.manufacturer_data) == 0)
    if kind == SUB_RAW:
        m = got[1]
        if not (tag == "cb" and type(m) is S[pb.BluetoothLERawAdvertisementsResponse] and len(m.advertisements) == 1):
            return False
        a = m.advertisements[0]
        return a.address == exp[1] and a.rssi == exp[2] and a.address_type == exp[3] and a.data == exp[4]
    return tag == "cb2" and got[1] == exp[1] and got[2] == exp[2]


def h17c_subscribe(sp: int, up: int, i0: int, i1: int, i2: int, n0: int, n1: int, n2: int,
                   b0: bool, b1: bool, b2: bool, st: str, blob: bytes, with_req: bool, lvl: int, dump: int) -> bool:
    """
    pre: 0 <= sp and 0 <= up
    pre: 0 <= i0 < A48 and 0 <= i1 < A48 and 0 <= i2 < A48
    pre: -2**31 <= n0 < 2**31 and -2**31 <= n1 < 2**31 and -2**31 <= n2 < 2**31
    pre: len(st) <= 2 and len(blob) == 6
    pre: 0 <= lvl <= 2 and 0 <= dump <= 2
    post: _
    """
    track.entered()
    pbstub.reset_registry()
    kind = shard_int("KIND", 0)
    nmsg = shard_int("NMSG", 3)
    world = ClientWorld()
    try:
        cli = world.cli
        log = []

        def cb(x):
            log.append(("cb", x))

        def cb2(x, y):
            log.append(("cb" if kind == SUB_HA else "cb2", x, y))

        def req(x, y):
            log.append(("req", x, y))

        s = concretize(sp, nmsg)  # subscribe just before message s (s == nmsg: after the whole stream)
        u = s + concretize(up, nmsg - s) if SUB_HAS_UNSUB[kind] else nmsg  # unsubscribe just before message u >= s
        ints, nums, bools = [i0, i1, i2], [n0, n1, n2], [b0, b1, b2]
        expected = []
        unsub = None
        subscribed = False
        for j in range(nmsg + 1):
            if j == s:
                k0 = world.n_sent()
                if kind == SUB_STATES:
                    r = cli.subscribe_states(cb)
                elif kind == SUB_LOGS:
                    level = [None, LogLevel.LOG_LEVEL_DEBUG, LogLevel.LOG_LEVEL_NONE][concretize(lvl, 2)]
                    dc = [None, True, False][concretize(dump, 2)]
                    r = cli.subscribe_logs(cb, log_level=level, dump_config=dc)
                elif kind == SUB_SERVICE:
                    r = cli.subscribe_service_calls(cb)
                elif kind == SUB_HA:
                    r = cli.subscribe_home_assistant_states(cb2, req if with_req else None)
                elif kind == SUB_ADV:
                    r = cli.subscribe_bluetooth_le_advertisements(cb)
                elif kind == SUB_RAW:
                    r = cli.subscribe_bluetooth_le_raw_advertisements(cb)
                else:
                    r = cli.subscribe_bluetooth_connections_free(cb2)
                sent = world.sent(k0)
                if len(sent) != 1 or type(sent[0][1]) is not S[SUB_REQ[kind]]:
                    return track.fail(f"{SUB_NAMES[kind]} did not write exactly one {SUB_REQ[kind].__name__}")
                q = sent[0][1].assigned()
                if kind == SUB_LOGS:
                    want = {}
                    if level is not None:
                        want["level"] = level
                    if dc is not None:
                        want["dump_config"] = dc
                    if set(q) != set(want) or any(q[k] != want[k] for k in want):
                        return track.fail("SubscribeLogsRequest does not carry exactly the supplied log_level / dump_config")
                if SUB_HAS_UNSUB[kind]:
                    if not callable(r):
                        return track.fail(f"{SUB_NAMES[kind]} did not return an unsubscribe callable")
                    unsub = r
                elif r is not None:
                    return track.fail(f"{SUB_NAMES[kind]} returned {r!r}")
                subscribed = True
            if j == u and unsub is not None and subscribed:
                k0 = world.n_sent()
                unsub()
                subscribed = False
                sent = world.sent(k0)
                if kind in (SUB_ADV, SUB_RAW):
                    if len(sent) != 1 or type(sent[0][1]) is not S[pb.UnsubscribeBluetoothLEAdvertisementsRequest]:
                        return track.fail("unsubscribe did not write exactly one UnsubscribeBluetoothLEAdvertisementsRequest")
                elif sent:
                    return track.fail("unsubscribe of connections-free wrote something")
                if world.handlers():
                    return track.fail("a callback is still registered after unsubscribe")
            if j == nmsg:
                break
            k0 = world.n_sent()
            msg, exp = _sub_message(kind, j, ints[j], nums[j], bools[j], st, blob)
            world.deliver(msg)
            if subscribed:
                expected.append(exp)
            if world.n_sent() != k0:
                return track.fail("a subscribed message made the client write something")
        world.loop.run_ready()
        if track.reached():
            return False
        if len(log) != len(expected):
            return track.fail(f"{SUB_NAMES[kind]}: {len(log)} callbacks for {len(expected)} messages between subscribe (before #{s}) and unsubscribe (before #{u})")
        for got, exp in zip(log, expected):
            if not _sub_match(kind, got, exp, with_req):
                return track.fail(f"{SUB_NAMES[kind]}: callback does not carry the values of the message in arrival order")
        return True
    finally:
        world.close()


# ---- voice assistant
V_START, V_STOP, V_AUDIO, V_ANN = 0, 1, 2, 3
VOICE_KIND_NAMES = ["start request", "stop request", "audio", "announce finished"]
VA_TYPES = (pb.VoiceAssistantRequest, pb.VoiceAssistantAudio, pb.VoiceAssistantAnnounceFinished)


def h17c_voice(sp: int, up: int, k0: int, k1: int, k2: int, with_audio: bool, with_ann: bool, mode: int, port: int,
               flags: int, conv: str, wake: str, blob: bytes, e0: bool, e1: bool, e2: bool) -> bool:
    """
    pre: 0 <= sp and 0 <= up
    pre: 0 <= k0 <= 3 and 0 <= k1 <= 3 and 0 <= k2 <= 3
    pre: 0 <= mode <= 2
    pre: 0 <= port < U32 and 0 <= flags < U32
    pre: len(conv) <= 1 and len(wake) <= 1 and len(blob) == 6
    post: _
    """
    track.entered()
    pbstub.reset_registry()
    nmsg = shard_int("NMSG", 3)
    fixed_first = shard_int("FIRSTKIND", -1)
    world = ClientWorld()
    try:
        cli, loop = world.cli, world.loop
        log = []
        gate = loop.create_future()  # a blocking start handler waits here
        md = shard_int("MODE", -1)
        if md < 0:
            md = concretize(mode, 2)
        blocked = []

        async def handle_start(conversation_id, fl, audio_settings, wake_word_phrase):
            log.append(("start", conversation_id, fl, audio_settings, wake_word_phrase))
            if md == 0:
                return port
            if md == 1:
                return None
            blocked.append("waiting")
            try:
                got = await gate
            except asyncio.CancelledError:
                blocked.append("cancelled")
                raise
            blocked.append("released")
            return got

        async def handle_stop(abort):
            log.append(("stop", abort))

        async def handle_audio(data):
            log.append(("audio", data))

        async def handle_ann(finished):
            log.append(("ann", finished))

        s = concretize(sp, nmsg)
        u = s + concretize(up, nmsg + 1 - s)  # u == nmsg + 1: never unsubscribed before the end
        kinds, ends = [k0, k1, k2], [e0, e1, e2]
        expected = []  # handler invocations
        exp_writes = []  # (what, value) after the subscribe request
        unsub = None
        subscribed = False
        starts_seen = 0
        pending_block = False
        for j in range(nmsg + 1):
            if j == s:
                unsub = cli.subscribe_voice_assistant(
                    handle_start=handle_start, handle_stop=handle_stop,
                    handle_audio=handle_audio if with_audio else None,
                    handle_announcement_finished=handle_ann if with_ann else None)
                sent = world.sent()
                if len(sent) != 1 or type(sent[0][1]) is not S[pb.SubscribeVoiceAssistantRequest]:
                    return track.fail("subscribe_voice_assistant did not write exactly one SubscribeVoiceAssistantRequest")
                q = sent[0][1]
                if q.subscribe is not True:
                    return track.fail("SubscribeVoiceAssistantRequest does not say subscribe=True")
                if not callable(unsub):
                    return track.fail("subscribe_voice_assistant did not return an unsubscribe callable")
                subscribed = True
            if j == u and subscribed:
                unsub()
                subscribed = False
                loop.run_ready()
                exp_writes.append(("unsub", None))
                if pending_block:
                    pending_block = False  # the blocked start handler must be cancelled, nothing is answered
                    if blocked != ["waiting", "cancelled"]:
                        return track.fail(f"unsubscribe did not cancel the running start handler ({blocked})")
                left = [c.__name__ for c in VA_TYPES if world.handlers_for(S[c])]
                if left:
                    return track.fail(f"after unsubscribe a voice-assistant callback is still registered for {left}")
            if j == nmsg:
                break
            if j == 0 and fixed_first >= 0:
                kd = fixed_first
            else:
                kd = concretize(kinds[j], 3)
            raw = blob[2 * j: 2 * j + 2]
            if kd == V_START:
                if subscribed:
                    starts_seen += 1
                    if md == 2 and starts_seen > 1:
                        return True  # a second start while the first handler is still running: outside the statement
                msg = S[pb.VoiceAssistantRequest](start=True, conversation_id=conv, flags=flags, wake_word_phrase=wake)
                msg.audio_settings.noise_suppression_level = 2
                msg.audio_settings.auto_gain = 31
                if subscribed:
                    expected.append(("start", conv, flags, wake))
                    if md == 0:
                        exp_writes.append(("port", port))
                    elif md == 1:
                        exp_writes.append(("error", None))
                    else:
                        pending_block = True
            elif kd == V_STOP:
                msg = S[pb.VoiceAssistantRequest](start=False, conversation_id=conv, flags=flags)
                if subscribed:
                    expected.append(("stop", True))
            elif kd == V_AUDIO:
                msg = S[pb.VoiceAssistantAudio](data=raw, end=ends[j])
                if subscribed and with_audio:
                    if ends[j]:
                        expected.append(("stop", False))
                    else:
                        expected.append(("audio", raw))
            else:
                msg = S[pb.VoiceAssistantAnnounceFinished](success=ends[j])
                if subscribed and with_ann:
                    expected.append(("ann", ends[j]))
            world.deliver(msg)
            loop.run_ready()
        # a start handler that is still blocked and was not cancelled gets its port now
        if pending_block:
            gate.set_result(port)
            loop.run_ready()
            exp_writes.append(("port", port))
            if blocked != ["waiting", "released"]:
                return track.fail(f"blocked start handler was disturbed although nobody unsubscribed ({blocked})")
        if not gate.done():
            gate.cancel()
        if track.reached():
            return False
        # --- handler invocations: once per message, in order, with the message's values
        if len(log) != len(expected):
            return track.fail(f"{len(log)} handler invocations for {len(expected)} messages between subscribe (before #{s}) and unsubscribe (before #{u}); with_audio={with_audio}")
        for got, exp in zip(log, expected):
            if got[0] != exp[0]:
                return track.fail(f"handler {got[0]} invoked where the message calls for {exp[0]}")
            if exp[0] == "start":
                wk = None if exp[3] == "" else exp[3]
                a = got[3]
                if not (got[1] == exp[1] and got[2] == exp[2] and same(got[4], wk)):
                    return track.fail("handle_start arguments differ from the request's (conversation_id, flags, wake_word_phrase or None)")
                if type(a) is not M.VoiceAssistantAudioSettings or a.noise_suppression_level != 2 or a.auto_gain != 31:
                    return track.fail("handle_start audio settings differ from the request's")
            elif exp[0] == "stop":
                if got[1] is not exp[1]:
                    return track.fail("handle_stop called with the wrong abort flag")
            elif exp[0] == "audio":
                if got[1] != exp[1]:
                    return track.fail("handle_audio data differs from the message's")
            else:
                if type(got[1]) is not M.VoiceAssistantAnnounceFinished or not same(got[1].success, exp[1]):
                    return track.fail("announcement-finished handler got other values than the message's")
        # --- what was written after the subscribe request
        sent = [m for _, m in world.sent(1)]
        if len(sent) != len(exp_writes):
            return track.fail(f"{len(sent)} messages written after subscribing, expected {[w[0] for w in exp_writes]}")
        for m, (what, val) in zip(sent, exp_writes):
            if what == "unsub":
                if type(m) is not S[pb.SubscribeVoiceAssistantRequest] or m.subscribe is not False:
                    return track.fail("unsubscribe did not write SubscribeVoiceAssistantRequest(subscribe=False) in order")
            else:
                if type(m) is not S[pb.VoiceAssistantResponse]:
                    return track.fail(f"expected a VoiceAssistantResponse, {tname(m)} was written")
                a = m.assigned()
                if what == "port" and not (set(a) == {"port"} and a["port"] == val):
                    return track.fail("start was not answered with VoiceAssistantResponse(port=<the port the handler returned>)")
                if what == "error" and not (set(a) == {"error"} and a["error"] is True):
                    return track.fail("start whose handler returned None was not answered with VoiceAssistantResponse(error=True)")
        if loop.exc:
            return track.fail(f"the loop recorded an unhandled exception: {loop.exc[0].get('exception')!r}")
        return True
    finally:
        world.close()


# ----------------------------------------------------------------------------------------------
def shards(tier: str) -> list:
    out = [{"fn": "h17a_camera_step", "cond_timeout": 400,
            "desc": "on_state_msg camera step from an arbitrary buffer (2 symbolic keys absent/0/1/2 chunks), symbolic key/data/done"}]
    for n in ([3] if tier == "quick" else [3, 4]):
        out.append({"fn": "h17a_camera_stream", "env": {"NMSG": n}, "cond_timeout": 400,
                    "desc": f"subscribe_states + process_packet: {n} camera chunks over 2 keys, interleaved switch state"})
        out.append({"fn": "h17a_camera_two_subs", "env": {"NMSG": n}, "cond_timeout": 400,
                    "desc": f"two state subscriptions on one client: {n} camera chunks over 2 keys, each subscription reassembles on its own"})
    groups = [list(range(i, min(i + 3, NSTATE))) for i in range(0, NSTATE, 3)]
    for g in groups:
        out.append({"fn": "h17b_state", "env": {"TYPES": ",".join(map(str, g))}, "cond_timeout": 400,
                    "desc": "state types " + ", ".join(STATE_TYPES[t][0].__name__ for t in g)})
    for kind in range(7):
        out.append({"fn": "h17c_subscribe", "env": {"KIND": kind, "NMSG": 3}, "cond_timeout": 400,
                    "desc": f"{SUB_NAMES[kind]}: subscribe / unsubscribe points in a 3-message stream"})
    if tier == "quick":
        for first in range(4):
            out.append({"fn": "h17c_voice", "env": {"NMSG": 2, "FIRSTKIND": first}, "cond_timeout": 500,
                        "desc": f"subscribe_voice_assistant: 2 messages (first: {VOICE_KIND_NAMES[first]}), every subscribe/unsubscribe point, optional handlers, start -> port / None / blocked"})
    else:
        for first in range(4):
            for md in range(3):
                out.append({"fn": "h17c_voice", "env": {"NMSG": 3, "FIRSTKIND": first, "MODE": md}, "cond_timeout": 1200,
                            "desc": f"subscribe_voice_assistant: 3 messages (first: {VOICE_KIND_NAMES[first]}), start handler mode {md}, every subscribe/unsubscribe point"})
    return out


BOUNDS = {
    "quick": "camera step: buffer with <= 2 symbolic 32-bit keys, <= 2 chunks each (1-2 symbolic bytes), message key/data(0-2 bytes)/done symbolic; stream: 3 chunks over 2 concrete keys + 1 switch state; 21 state types with symbolic key + up to 3 ints, 3 bools, 1 str(len<=2), 1 float, 1 enum in [-1,12]; subscribe_*: 3-message stream, all subscribe and unsubscribe points; voice assistant: 2 messages",
    "thorough": "as quick; camera stream 4 chunks; voice assistant 3 messages",
}
OUTSIDE = [
    "float fields converted by fix_float_single_double_conversion (left at 0.0; C14's subject)",
    "more than one enum field symbolic at a time; strings longer than 2; repeated fields of advertisements / service calls beyond one concrete-keyed entry",
    "a second voice-assistant start request while the first start handler is still running",
    "unsubscribe in the same loop turn as a start request whose handler already returned (order of the response and the unsubscribe request is unspecified)",
    "streams longer than stated (camera reassembly: covered for any length by the inductive step)",
]
ASSUMPTIONS = [
    "connection put into CONNECTED directly with a recording frame helper; real process_packet / handler table / subscribe_* run",
    "pbstub doubles for all messages involved (named fields with descriptor defaults, injective token codec)",
    "camera step: the buffer dict with symbolic keys is CrossHair's dict model (dict(pairs) under analysis; a plain dict in native replay); representation invariant: arbitrary mapping key -> list of chunks",
    "SimLoop: real asyncio scheduler (eager tasks, done callbacks) on a virtual clock",
]
# repo functions entered by shards other than the two sampled per harness function for the evidence file
ALSO_ENCODED = [
    "client.py:APIClient.subscribe_service_calls", "client.py:APIClient.subscribe_home_assistant_states",
    "client.py:APIClient.subscribe_bluetooth_le_advertisements", "client.py:APIClient.subscribe_bluetooth_connections_free",
    "client.py:APIClient._create_background_task",
    "client.py:APIClient.subscribe_voice_assistant.<locals>._on_voice_assistant_request",
    "client.py:APIClient.subscribe_voice_assistant.<locals>._on_voice_assistant_audio",
    "client.py:APIClient.subscribe_voice_assistant.<locals>._on_voice_assistant_announcement_finished",
    "client.py:APIClient.subscribe_voice_assistant.<locals>._started",
    "client_callbacks.py:on_home_assistant_service_response", "client_callbacks.py:on_subscribe_home_assistant_state_response",
    "client_callbacks.py:on_bluetooth_le_advertising_response", "client_callbacks.py:on_bluetooth_connections_free_response",
    "model.py:APIIntEnum.convert", "model.py:BluetoothLEAdvertisement.from_pb", "model.py:_convert_homeassistant_service_map",
    "util.py:create_eager_task",
]
EXPLANATION = ("C17: oracle = per-key concatenation model for camera chunks (one-step inductive + end-to-end), field-by-field comparison of the single "
               "callback's model with the message for all 21 state types, and for every subscribe_* a reference list 'messages between the "
               "subscribe point and the unsubscribe point' compared with the recorded callbacks in order; voice assistant additionally the written responses.")
