"""C18 -- reconnect manager: one attempt at a time, specified back-off, clean stop.

The real ReconnectLogic runs on the virtual-time SimLoop against a FakeClient (the client is the
subject of C05-C09/C19) and zeroconf doubles.  Which event happens next, how each attempt ends and
(for the chain harness) which error class strikes at which failure count are symbolic integers that are
concretised by forking; the monitors below are the statement of C18 and nothing else.
"""
from __future__ import annotations

import asyncio
import time as _time
from fractions import Fraction
from typing import List

import aioesphomeapi.reconnect_logic as RL
from aioesphomeapi.core import (
    APIConnectionError,
    HandshakeAPIError,
    InvalidAuthAPIError,
    InvalidEncryptionKeyAPIError,
    RequiresEncryptionAPIError,
    ResolveAPIError,
    SocketAPIError,
    TimeoutAPIError,
)
from aioesphomeapi.zeroconf import ZeroconfManager
from zeroconf import DNSAddress, DNSPointer, RecordUpdate
from zeroconf.const import _CLASS_IN, _TYPE_A, _TYPE_PTR

from vf import track
from vf.harness.common import concretize, shard_int, shard_ints
from vf.simloop import SimLoop
from vf.stubs_zc import FakeZeroconf, ZcWorld

PROPERTY = "C18"

# ---- attempt outcomes ---------------------------------------------------------------------------
K_OK, K_RESOLVE, K_SOCKET, K_TIMEOUT, K_HANDSHAKE, K_AUTH, K_REQENC, K_BADKEY = range(8)
START_PHASE = (K_RESOLVE, K_SOCKET, K_TIMEOUT)  # raised by start_connection
AUTH_KINDS = (K_AUTH, K_REQENC, K_BADKEY)
EXC = {
    K_RESOLVE: ResolveAPIError,
    K_SOCKET: SocketAPIError,
    K_TIMEOUT: TimeoutAPIError,
    K_HANDSHAKE: HandshakeAPIError,
    K_AUTH: InvalidAuthAPIError,
    K_REQENC: RequiresEncryptionAPIError,
    K_BADKEY: InvalidEncryptionKeyAPIError,
}

# ---- events -------------------------------------------------------------------------------------
E_TIMER, E_DELTA, E_END_UNEXP, E_END_EXP, E_MDNS_PTR, E_MDNS_A, E_MDNS_NON, E_START, E_STOP = range(9)
NEV = 9
DELTA = 0.25

# ---- mDNS records (real zeroconf record objects, concrete, built once) -----------------------------
PTR_MATCH = DNSPointer("_esphomelib._tcp.local.", _TYPE_PTR, _CLASS_IN, 1000, "dev._esphomelib._tcp.local.")
PTR_OTHER = DNSPointer("_esphomelib._tcp.local.", _TYPE_PTR, _CLASS_IN, 1000, "other._esphomelib._tcp.local.")
A_MATCH = DNSAddress("dev.local.", _TYPE_A, _CLASS_IN, 1000, b"\x0a\x00\x00\x05")
A_OTHER = DNSAddress("other.local.", _TYPE_A, _CLASS_IN, 1000, b"\x0a\x00\x00\x06")
BATCH = {
    E_MDNS_PTR: [RecordUpdate(A_OTHER, None), RecordUpdate(PTR_MATCH, None)],
    E_MDNS_A: [RecordUpdate(A_MATCH, None)],
    E_MDNS_NON: [RecordUpdate(PTR_OTHER, None), RecordUpdate(A_OTHER, None)],
}


def spec_delay(n: int) -> int:
    """min(round(1.8^n), 60) over exact rationals (round half to even, as Python's round)."""
    if n >= 7:  # 1.8^7 = 61.2...; monotone
        return 60
    q = Fraction(9, 5) ** n
    r = q.numerator // q.denominator
    frac = q - r
    if frac > Fraction(1, 2) or (frac == Fraction(1, 2) and r % 2 == 1):
        r += 1
    return min(r, 60)


class FakeClient18:
    """what ReconnectLogic uses of APIClient; behaves like the real client as seen from outside."""

    def __init__(self, w: "World18", address: str, mgr: ZeroconfManager) -> None:
        self.w = w
        self.address = address
        self.log_name = address
        self.zeroconf_manager = mgr
        self.cached_name = None
        self._connection = None
        self._kind = K_OK
        self.on_stop = None

    def set_cached_name_if_unset(self, name: str) -> None:
        if not self.cached_name:
            self.cached_name = name

    async def start_connection(self, on_stop=None) -> None:
        w = self.w
        if self._connection is not None:
            w.bad("an attempt was started while the client already has a connection (attempt in flight or live session)")
            raise APIConnectionError("Already connected")
        w.attempt_started()
        self._kind = w.pick_outcome()
        self._connection = object()
        self.on_stop = on_stop
        w.inflight = "connecting"
        try:
            if w.d1:
                await asyncio.sleep(w.d1)
        except asyncio.CancelledError:
            self._connection = None
            w.inflight = None
            w.cancelled += 1
            raise
        if self._kind in START_PHASE:
            self._fail()

    async def finish_connection(self, login: bool = False) -> None:
        w = self.w
        if w.inflight != "connecting" or self._connection is None:
            w.bad("finish_connection without a started connection")
            raise APIConnectionError("Not connected")
        w.inflight = "handshaking"
        try:
            if w.d2:
                await asyncio.sleep(w.d2)
        except asyncio.CancelledError:
            self._connection = None
            w.inflight = None
            w.cancelled += 1
            raise
        if self._kind != K_OK:
            self._fail()
        w.inflight = None
        w.session_live = True
        w.established += 1

    def _fail(self) -> None:
        w = self.w
        exc = EXC[self._kind]("stub failure")
        self._connection = None
        w.inflight = None
        w.attempt_failed(exc, self._kind)
        raise exc


class World18:
    def __init__(self, oc, outcomes, d1, d2, name_mode: int, zc_mode: int, settle: bool) -> None:
        self.oc = oc
        self.outcomes = outcomes
        self.d1 = d1
        self.d2 = d2
        self.settle = settle
        self.zw = ZcWorld().install()
        self.loop = SimLoop().activate()
        self.viol: list = []
        # truth kept by the environment
        self.attempts: list = []
        self.kinds: list = []
        self.inflight = None
        self.session_live = False
        self.established = 0
        self.ended = 0
        self.ended_flags: list = []
        self.cancelled = 0
        self.failures: list = []  # (time, exc)
        self.reported: list = []
        self.connects = 0
        self.disconnects = 0
        self.disc_flags: list = []
        self.freeze = False
        self.k0 = -1
        self.fail_sync = False  # the latest failed attempt never suspended
        self.fail_attempt = -1
        self.mdns_attempt = -1  # index of the latest attempt that a record batch triggered
        self.stale_restart = False  # stop()+start() were called while a session-end notification was still queued
        # monitor state
        self.stopped = True  # never started == stopped
        self.stop_called = True
        self.epoch = 0
        self.start_active = 0
        self.permitted: set = set()
        self.obligation = None  # (created_at_attempt_count, set of times)
        self.n_total = 0
        self.auth_in_streak = False
        self.starts: list = []  # [failures since call, failures since return or None]
        self.armed: list = []  # (consecutive failures, kind of the last one, observed delay to the next attempt)
        self.retry_seen = 0
        self.tasks: list = []
        # objects
        self.app_zc = FakeZeroconf("app")
        self.app_azc = self.zw.supplied_async(self.app_zc)
        address = "dev.local" if name_mode == 1 else "10.0.0.5"
        self.has_name = name_mode != 2
        if zc_mode == 0:
            mgr = ZeroconfManager(self.app_azc)
        else:
            mgr = ZeroconfManager()
        self.cli = FakeClient18(self, address, mgr)
        self.rl = RL.ReconnectLogic(
            client=self.cli,
            on_connect=self.on_connect,
            on_disconnect=self.on_disconnect,
            zeroconf_instance=self.app_zc if zc_mode == 2 else None,
            name="dev" if name_mode == 0 else None,
            on_connect_error=self.on_connect_error,
        )

    # ---- bookkeeping ----------------------------------------------------------------------------
    def bad(self, why: str, signature=None) -> None:
        msg = f"t={self.loop.time()}: {why}"
        if signature is None and self.stale_restart:
            signature = SIG_STALE
        if not track.fail(msg, signature):  # True: listed as an open known finding (suppressed)
            self.viol.append(msg)

    def now(self):
        return self.loop.time()

    def pick_outcome(self) -> int:
        i = len(self.attempts) - 1
        if i == 0 and self.k0 >= 0:
            k = self.k0
        elif self.freeze or i >= len(self.oc):
            k = K_OK
        else:
            k = self.outcomes[concretize(self.oc[i], len(self.outcomes) - 1)]
        self.kinds.append(k)
        return k

    # ---- monitors (the statement) ---------------------------------------------------------------
    def attempt_started(self) -> None:
        t = self.now()
        if self.inflight is not None:
            self.bad(f"second attempt started while one is {self.inflight}")
        if self.session_live:
            self.bad("attempt started while a session is live")
        if self.stopped:
            self.bad("attempt started after stop() had returned (or before any start())")
        if not (self.start_active or t in self.permitted):
            self.bad(f"attempt started at an unspecified time (allowed now: {sorted(self.permitted)})")
        if self.failures and self.retry_seen < len(self.failures):
            # first attempt after the latest failure: the delay the real code waited (read off for E2)
            self.retry_seen = len(self.failures)
            self.armed.append((self.n_total, self.kinds[-1] if self.kinds else None, t - self.failures[-1][0]))
        self.obligation = None
        self.attempts.append(t)

    def attempt_failed(self, exc, kind: int) -> None:
        t = self.now()
        self.failures.append((t, exc))
        self.fail_sync = (self.d1 == 0) if kind in START_PHASE else (self.d1 == 0 and self.d2 == 0)
        self.fail_attempt = len(self.attempts) - 1
        self.n_total += 1
        for s in self.starts:
            s[0] += 1
            if s[1] is not None:
                s[1] += 1
        if kind in AUTH_KINDS:
            cands = {60}
            self.auth_in_streak = True
        else:
            ks = {self.n_total}
            for s in self.starts:
                lo = max(1, s[1] if s[1] is not None else 1)
                for k in range(lo, s[0] + 1):
                    ks.add(k)
            cands = {spec_delay(k) for k in ks}
            if self.auth_in_streak:
                cands.add(60)  # statement does not say whether the 60 s regime persists: don't care
        times = {t + d for d in cands}
        self.permitted = set(times)
        if not self.stop_called:
            self.obligation = (len(self.attempts), times, "failure", t)

    async def on_connect(self) -> None:
        self.connects += 1
        if not self.session_live:
            self.bad("on_connect without an established session")
        if self.connects != self.disconnects + 1:
            self.bad("on_connect / on_disconnect do not alternate")
        if self.connects != self.established:
            self.bad("on_connect not exactly once per established session")
        self.n_total = 0
        self.auth_in_streak = False
        self.starts = []

    async def on_disconnect(self, expected: bool) -> None:
        self.disconnects += 1
        self.disc_flags.append(bool(expected))
        if self.disconnects != self.connects:
            self.bad("on_disconnect / on_connect do not alternate")
        if self.disconnects > self.ended:
            self.bad("on_disconnect without an ended session")

    async def on_connect_error(self, err) -> None:
        self.reported.append(err)

    # ---- events ---------------------------------------------------------------------------------
    def started_now(self) -> bool:
        return not self.stop_called

    def all_zc(self) -> list:
        out = [self.app_zc]
        for a in self.zw.constructed:
            if a.zeroconf not in out:
                out.append(a.zeroconf)
        return out

    def listeners(self) -> int:
        return sum(len(z.listeners) for z in self.all_zc())

    def enabled(self, ev: int) -> bool:
        if ev == E_TIMER:
            return self.loop.next_timer() is not None or bool(self.loop._ready)
        if ev in (E_END_UNEXP, E_END_EXP):
            return self.session_live
        if ev in (E_MDNS_PTR, E_MDNS_A, E_MDNS_NON):
            if not self.has_name:
                return False
            return self.listeners() > 0 or self.session_live or self.inflight == "handshaking"
        if ev == E_START:
            # restarting a stopped manager while the client still has (or is completing) its session: outside
            # the statement -- stop() deliberately leaves the client connected
            return not (self.stop_called and (self.session_live or self.inflight == "handshaking"))
        return True

    def _spawn(self, coro):
        t = asyncio.Task(coro, loop=self.loop, eager_start=True)
        self.tasks.append(t)
        return t

    async def _start(self) -> None:
        self.start_active += 1
        try:
            await self.rl.start()
        finally:
            self.start_active -= 1
            self.permitted.add(self.now())
            if self._cur_start is not None and self._cur_start[1] is None:
                self._cur_start[1] = 0

    async def _stop(self, epoch: int) -> None:
        await self.rl.stop()
        if self.epoch == epoch:
            self.stopped = True
            self.permitted = set()
            if self.listeners() != 0:
                self.bad("stop() has returned but the manager is still registered as mDNS listener")

    def do(self, ev: int) -> None:
        loop = self.loop
        t = self.now()
        n_before = len(self.attempts)
        waiting = self.started_now() and self.inflight is None and not self.session_live and self.listeners() > 0
        quiet = not loop._ready
        if ev == E_TIMER:
            loop.advance()
        elif ev == E_DELTA:
            loop.advance_to(t + DELTA)
        elif ev in (E_END_UNEXP, E_END_EXP):
            expected = ev == E_END_EXP
            self.session_live = False
            self.ended += 1
            self.ended_flags.append(expected)
            self.cli._connection = None
            when = t + (RL_COOLDOWN if expected else 0)
            if self.started_now():
                self.permitted.add(when)
                self.obligation = (len(self.attempts), {when}, "end", t)
            loop.create_task(self.cli.on_stop(expected))
        elif ev in (E_MDNS_PTR, E_MDNS_A, E_MDNS_NON):
            if self.session_live or self.inflight == "handshaking":
                # 'never while handshaking or connected': even a batch that is already being dispatched
                self.rl.async_update_records(self.app_zc, 0.0, BATCH[ev])
                for z in self.all_zc():
                    z.deliver(BATCH[ev])
            else:
                if ev != E_MDNS_NON and self.started_now():
                    self.permitted.add(t)
                for z in self.all_zc():
                    z.deliver(BATCH[ev])
        elif ev == E_START:
            if self.stop_called and self.ended > self.disconnects:
                self.stale_restart = True
            self.epoch += 1
            self.stopped = False
            self.stop_called = False
            cur = [0, None]
            self._cur_start = cur
            self.starts.append(cur)
            self._spawn(self._start())
        elif ev == E_STOP:
            self.stop_called = True
            self.obligation = None
            self._spawn(self._stop(self.epoch))
        if ev in (E_MDNS_PTR, E_MDNS_A) and len(self.attempts) > n_before:
            self.mdns_attempt = len(self.attempts) - 1
        if self.settle:
            loop.run_ready()
            if ev in (E_MDNS_PTR, E_MDNS_A) and waiting and quiet and len(self.attempts) == n_before:
                sig = None
                if self.fail_sync and self.fail_attempt == n_before - 1 and self.mdns_attempt == n_before - 1:
                    # the previous attempt was itself started by a record and failed without ever suspending
                    sig = SIG_SYNC
                self.bad("matching mDNS record seen while waiting did not start an attempt immediately", sig)
            if ev == E_MDNS_NON and quiet and len(self.attempts) != n_before:
                self.bad("a record that does not belong to the device triggered an attempt")
            self.check_settled()

    def check_settled(self) -> None:
        """conditions that hold whenever the loop is quiescent."""
        now = self.now()
        if self.obligation is not None and not self.stop_called:
            at, times, _, _ = self.obligation
            if now >= max(times) and len(self.attempts) == at and self.inflight is None and not self.session_live:
                self.bad(f"no attempt although one was due at {sorted(times)}")
        if self.connects != self.established:
            self.bad("on_connect count differs from the number of established sessions")
        if self.disconnects != self.ended:
            self.bad("on_disconnect count differs from the number of ended sessions")
        elif self.disc_flags != self.ended_flags:
            self.bad("on_disconnect was told a different 'expected' flag than the session end had")
        if len(self.reported) != len(self.failures) or any(r is not f[1] for r, f in zip(self.reported, self.failures)):
            self.bad("failed attempts and on_connect_error reports differ (each failure exactly once)")

    def waiting_after_failure(self) -> bool:
        return (self.started_now() and self.inflight is None and not self.session_live and self.obligation is not None
                and self.obligation[2] == "failure" and len(self.attempts) == self.obligation[0])

    def finish(self) -> None:
        """end of the event sequence: serve pending obligations, stop, and watch the stopped manager."""
        loop = self.loop
        self.freeze = True
        loop.run_ready()
        self.check_settled()
        if self.viol:
            return
        # while waiting for a back-off retry the manager must be listening (if it knows the name)
        if self.has_name and self.waiting_after_failure() and self.listeners() == 0:
            self.bad("waiting for a retry but no mDNS listener is registered")
        if self.obligation is not None and not self.stop_called and self.inflight is None and not self.session_live:
            loop.advance_to(max(self.obligation[1]))
            self.check_settled()
        if self.viol:
            return
        self.stop_called = True
        self.obligation = None
        st = self._spawn(self._stop(self.epoch))
        if not loop.run_until_done(st):
            self.bad("stop() never returned")
            return
        loop.run_ready()
        n = len(self.attempts)
        if self.listeners() != 0:
            self.bad("mDNS listener still registered after stop() returned")
        for z in self.all_zc():
            z.deliver(BATCH[E_MDNS_PTR])
            z.deliver(BATCH[E_MDNS_A])
        loop.run_ready()
        if self.session_live:
            self.session_live = False
            self.ended += 1
            self.ended_flags.append(False)
            self.cli._connection = None
            loop.create_task(self.cli.on_stop(False))
            loop.run_ready()
        k = 0
        while k < 50 and loop.advance():
            k += 1
        loop.advance_to(self.now() + 200)
        if len(self.attempts) != n:
            self.bad("an attempt was started after stop() had returned")
        if self.listeners() != 0:
            self.bad("mDNS listener registered after stop() returned")
        self.check_settled()
        if self.app_zc.close_calls or self.app_azc.close_calls:
            self.bad("the application's zeroconf instance was closed")
        for a in self.zw.library_created():
            if a.close_calls < 1:
                self.bad("a zeroconf instance created by the library was left open after stop()")

    def close(self) -> None:
        try:
            self.loop.shutdown()
        finally:
            self.zw.uninstall()

    _cur_start = None


RL_COOLDOWN = 5.0  # the statement's cool-down (not read from the code)
SIG_STALE = "C18/stale-session-end-notification/stop-and-start-before-on-disconnect-task-ran"
SIG_SYNC = "C18/mdns-ignored-while-waiting/after-record-triggered-attempt-failed-synchronously"


def h18a_scenario(ev: List[int], oc: List[int]) -> bool:
    """
    pre: len(ev) == NEVENTS and len(oc) == NEVENTS + 2
    pre: all(0 <= e for e in ev) and all(0 <= o for o in oc)
    post: _
    """
    track.entered()
    outcomes = shard_ints("OUTC", "0,2,4,5")
    pre = shard_ints("PRE", str(E_START))
    w = World18(oc, outcomes, shard_int("D1", 1), shard_int("D2", 1), shard_int("NAME", 0), shard_int("ZC", 0), shard_int("SETTLE", 1) == 1)
    w.k0 = shard_int("K0", -1)
    try:
        for e in pre:
            if not w.enabled(e):
                return True
            w.do(e)
            if w.viol:
                return False
        for step in range(NEVENTS):
            e = EVTAB[concretize(ev[step], len(EVTAB) - 1)]
            if not w.enabled(e):
                break  # a disabled event ends the sequence (the shorter sequence is checked in full)
            w.do(e)
            if w.viol:
                return False
        w.finish()
        if len(w.attempts) > 0:
            if track.reached():
                return False
        if w.viol:
            return False
        return True
    finally:
        w.close()


NEVENTS = shard_int("NEVENTS", 4)
EVTAB = shard_ints("EVTAB", "0,1,2,3,4,5,6,7,8")


def h18b_chain(kinds: List[int], last: int) -> bool:
    """
    pre: len(kinds) == NCHAIN
    pre: all(0 <= k for k in kinds)
    pre: 0 <= last
    post: _
    """
    track.entered()
    table = shard_ints("KINDS", "1,2,3,4,5,6,7")
    w = World18([], [K_OK], shard_int("D1", 0), shard_int("D2", 0), shard_int("NAME", 0), shard_int("ZC", 0), True)
    try:
        kind0 = shard_int("KIND0", -1)
        ks = []
        for i in range(NCHAIN):
            if i == 0 and kind0 >= 0:
                ks.append(kind0)
            else:
                ks.append(table[concretize(kinds[i], len(table) - 1)])
        ks.append(K_OK)
        w.oc = list(range(len(ks)))
        w.outcomes = ks
        w.do(E_START)
        while w.inflight is not None and w.loop.advance():
            pass
        for i in range(NCHAIN):
            if w.viol:
                break
            if len(w.failures) != i + 1:
                w.bad(f"attempt {i + 1} did not fail as the environment dictated")
                break
            if not w.loop.advance():
                w.bad("no retry timer armed after a failed attempt")
                break
            while w.inflight is not None and w.loop.advance():
                pass
            w.check_settled()
        if not w.viol:
            if len(w.attempts) != NCHAIN + 1 or not w.session_live:
                w.bad("the attempt after the last failure did not take place / did not succeed")
        if not w.viol:
            # a fresh streak after success starts again at n = 1 (or, with `last`, ends the session first)
            w.oc = list(range(NCHAIN + 2))
            w.outcomes = ks + [K_SOCKET]
            w.do(E_END_EXP if concretize(last, 1) else E_END_UNEXP)
            while not w.viol and len(w.failures) < NCHAIN + 1 and w.loop.advance():
                pass
            w.check_settled()
            if not w.viol and len(w.failures) != NCHAIN + 1:
                w.bad("no new attempt after the session ended")
        w.finish()
        if track.reached():
            return False
        if w.viol:
            return False
        return True
    finally:
        w.close()


NCHAIN = shard_int("NCHAIN", 3)


def h18d_slow_callbacks(dsel: int, wsel: int, expected: bool, second_ok: bool) -> bool:
    """
    pre: 0 <= dsel <= 2
    pre: 0 <= wsel <= 3
    post: _
    """
    # The user's on_connect callback takes time (it awaits), and the session ends while it is still
    # running, exactly when it returns, or afterwards.  The manager must still process the session end:
    # on_disconnect once, after the on_connect call of that session began, and a new attempt no later
    # than the cool-down after both the session end and the callback's return.
    track.entered()
    dur = (0, 1, 3)[concretize(dsel, 2)]
    w = World18([0, 0, 0, 0, 0], [K_OK] if second_ok else [K_OK, K_SOCKET], 0, 0, 0, 0, True)
    try:
        cb = {"begin": [], "end": [], "disc": []}
        orig_connect, orig_disconnect = w.on_connect, w.on_disconnect

        async def on_connect():
            cb["begin"].append(w.now())
            await orig_connect()
            if dur:
                await asyncio.sleep(dur)
            cb["end"].append(w.now())

        async def on_disconnect(exp):
            cb["disc"].append((w.now(), exp))
            await orig_disconnect(exp)

        w.rl._on_connect_cb = on_connect
        w.rl._on_disconnect_cb = on_disconnect
        if not second_ok:
            w.oc = [0, 1, 0, 0, 0]  # the attempt after the session end fails once (socket error), then succeeds
        w.do(E_START)
        if not w.session_live or len(cb["begin"]) != 1:
            return track.fail("first attempt did not establish a session / on_connect not called")
        t0 = w.now()
        t_end = t0 + (0, 0.5, dur, dur + 1)[concretize(wsel, 3)]
        w.loop.advance_to(t_end)
        w.loop.run_ready()
        # the monitor's table of permitted instants assumes instantaneous callbacks: judged below instead
        w.start_active += 1
        w.session_live = False
        w.ended += 1
        w.ended_flags.append(expected)
        w.cli._connection = None
        w.loop.create_task(w.cli.on_stop(expected))
        w.loop.advance_to(t_end + dur + 80)
        w.loop.run_ready()
        if track.reached():
            return False
        cool = RL_COOLDOWN if expected else 0
        cb_done = cb["end"][0] if cb["end"] else None
        if cb_done is None:
            return track.fail("the on_connect callback of the first session never finished")
        if len(cb["disc"]) < 1:
            return track.fail("on_disconnect was not called for the ended session")
        if cb["disc"][0][1] is not expected:
            return track.fail("on_disconnect was told a different 'expected' flag than the session end had")
        if len(w.attempts) < 2:
            return track.fail(f"no new attempt after the session ended at t={t_end} (on_connect of that session returned at t={cb_done})")
        lo = t_end + cool
        hi = max(t_end, cb_done) + cool
        if not (lo <= w.attempts[1] <= hi):
            return track.fail(f"attempt after the session end started at t={w.attempts[1]}, outside [{lo}, {hi}]")
        if w.connects < 1 or w.disconnects < 1:
            return track.fail("callback counts inconsistent")
        return True
    finally:
        w.close()


def h18c_long(kind: int, pos: int, akind: int) -> bool:
    """
    pre: 0 <= kind and 0 <= pos and 0 <= akind
    post: _
    """
    track.entered()
    base = [K_RESOLVE, K_SOCKET, K_TIMEOUT, K_HANDSHAKE][concretize(kind, 3)]
    n = NLONG
    p = concretize(pos, n)  # p == n: no auth error in the chain
    ks = [base] * n
    if p < n:
        ks[p] = AUTH_KINDS[concretize(akind, 2)]
    ks.append(K_OK)
    w = World18(list(range(len(ks))), ks, shard_int("D1", 0), shard_int("D2", 0), shard_int("NAME", 0), shard_int("ZC", 0), True)
    try:
        w.do(E_START)
        while w.inflight is not None and w.loop.advance():
            pass
        for i in range(n):
            if w.viol:
                break
            if len(w.failures) != i + 1:
                w.bad(f"attempt {i + 1} did not fail as the environment dictated")
                break
            if not w.loop.advance():
                w.bad("no retry timer armed after a failed attempt")
                break
            while w.inflight is not None and w.loop.advance():
                pass
            w.check_settled()
        if not w.viol and (len(w.attempts) != n + 1 or not w.session_live):
            w.bad("the attempt after the last failure did not take place / did not succeed")
        w.finish()
        if track.reached():
            return False
        if w.viol:
            return False
        return True
    finally:
        w.close()


NLONG = shard_int("NLONG", 12)


# ----------------------------------------------------------------------------------------------
# E2: the back-off table, decided by z3 over exact rationals
# ----------------------------------------------------------------------------------------------
def observe_table(n: int = 12):
    """run the real ReconnectLogic natively through n consecutive socket failures followed by an
    authentication failure and read off the delay it armed after each failure."""
    ks = [K_SOCKET] * n + [K_AUTH, K_SOCKET, K_OK]
    w = World18(list(range(len(ks))), ks, 0, 0, 0, 0, True)
    try:
        w.do(E_START)
        for _ in range(len(ks) + 2):
            if not w.loop.advance():
                break
        return list(w.armed), list(w.viol)
    finally:
        w.close()


def table_native(n: int) -> bool:
    """native re-check of one table entry (replay target of an E2 witness)."""
    armed, _ = observe_table(12)
    for cnt, kind, d in armed:
        if cnt == n and kind == K_SOCKET:
            if d != spec_delay(n):
                return track.fail(f"after {n} consecutive failures the real code waits {d} s, the statement says {spec_delay(n)} s")
            return True
    return track.fail(f"no retry observed after failure {n}")


def smt_obligations(tier: str) -> list:
    import z3

    out = []
    t0 = _time.time()
    armed, viol = observe_table(12)
    obs = {cnt: d for cnt, kind, d in armed if kind == K_SOCKET and cnt <= 12}
    auth = [d for cnt, kind, d in armed if kind == K_AUTH]
    after_auth = [d for cnt, kind, d in armed if kind == K_SOCKET and cnt > 12]
    nmax = 12
    # exact powers p[k] = (9/5)^k
    p = [z3.RealVal(1)]
    for k in range(nmax):
        p.append(z3.simplify(p[-1] * z3.Q(9, 5)))
    n = z3.Int("n")
    r = z3.Int("r")
    pn = z3.Real("pn")
    sel = z3.And(*[z3.Implies(n == k, pn == p[k]) for k in range(1, nmax + 1)])
    half = z3.Q(1, 2)
    nearest = z3.Or(
        z3.And(z3.ToReal(r) - half < pn, pn < z3.ToReal(r) + half),
        z3.And(pn == z3.ToReal(r) + half, r % 2 == 0),  # tie: round half to even
        z3.And(pn == z3.ToReal(r) - half, r % 2 == 0),
    )
    spec = z3.If(r < 60, r, 60)

    def obs_fn(default):
        e = z3.IntVal(default)
        for k in range(nmax, 0, -1):
            e = z3.If(n == k, z3.IntVal(int(obs.get(k, -1))), e)
        return e

    complete = all(k in obs and float(obs[k]) == int(obs[k]) for k in range(1, nmax + 1))
    s = z3.Solver()
    s.set("timeout", 60000)
    s.add(n >= 1, n <= nmax, sel, nearest, spec != obs_fn(-1))
    st = str(s.check())
    ob = {"name": "backoff-table-1..12", "queries": 1,
          "what": "exists n in 1..12 with min(round((9/5)^n), 60) != delay armed by the real code after n consecutive failures (delays read off natively)",
          "sample": {"observed": {str(k): obs.get(k) for k in range(1, nmax + 1)}}}
    if not complete:
        st = "sat"
        ob["witness"] = {"missing": [k for k in range(1, nmax + 1) if k not in obs], "violations": viol[:3]}
        bad_n = ob["witness"]["missing"][0] if ob["witness"]["missing"] else 1
        ob["reproduced"] = table_native(bad_n) is False
        ob["replay_call"] = f"table_native({bad_n})"
    elif st == "sat":
        m = s.model()
        bad_n = m[n].as_long()
        ob["witness"] = {"n": bad_n, "observed": obs.get(bad_n), "statement": m.eval(spec).as_long()}
        ob["reproduced"] = table_native(bad_n) is False
        ob["replay_call"] = f"table_native({bad_n})"
    ob["status"] = st
    ob["seconds"] = round(_time.time() - t0, 2)
    out.append(ob)

    # tail: for every n >= 7, (9/5)^n > 60.5, hence min(round(.), 60) = 60: base + inductive step
    t0 = _time.time()
    x = z3.Real("x")
    s = z3.Solver()
    s.add(z3.Or(p[7] <= z3.Q(121, 2), z3.And(x > z3.Q(121, 2), x * z3.Q(9, 5) <= z3.Q(121, 2))))
    st = str(s.check())
    tail_ok = all(obs.get(k) == 60 for k in range(7, nmax + 1)) and auth == [60]
    ob = {"name": "backoff-tail-monotone", "queries": 1, "seconds": round(_time.time() - t0, 2),
          "what": "(9/5)^7 > 60.5 and x > 60.5 => 9x/5 > 60.5: the statement's delay is 60 for every n >= 7; observed delays for n = 7..12 and after an auth error are all 60",
          "sample": {"auth": auth, "after_auth": after_auth}}
    if st == "unsat" and not tail_ok:
        st = "sat"
        ob["witness"] = {"observed_7_12": [obs.get(k) for k in range(7, 13)], "auth": auth, "after_auth": after_auth}
        ob["reproduced"] = True
        ob["replay_call"] = "table_tail_native()"
    ob["status"] = st
    out.append(ob)

    # margin: no (9/5)^n, n <= 10, lies within 1e-6 of a rounding boundary (float pow cannot flip the result)
    t0 = _time.time()
    s = z3.Solver()
    kk = z3.Int("k")
    eps = z3.Q(1, 1000000)
    d = pn - (z3.ToReal(kk) + half)
    s.add(n >= 1, n <= 10, sel, z3.And(d < eps, d > -eps))
    st = str(s.check())
    ob = {"name": "backoff-rounding-margin", "queries": 1, "status": st, "seconds": round(_time.time() - t0, 2),
          "what": "no (9/5)^n for n in 1..10 is within 1e-6 of k + 1/2: a last-bit error of float pow cannot change round()"}
    if st == "sat":
        ob["witness"] = {"n": s.model()[n].as_long()}
        ob["reproduced"] = False
    out.append(ob)
    return out


def table_tail_native() -> bool:
    armed, _ = observe_table(12)
    for cnt, kind, d in armed:
        if (cnt >= 7 or kind == K_AUTH) and d != 60:
            return track.fail(f"delay {d} s after failure count {cnt} (kind {kind}), the statement says 60 s")
    return True


def _prefix_ok(pre, k0, d1, d2, name, zc, settle) -> bool:
    """native dry run of a fixed event prefix: is every event of it enabled when its turn comes?
    (only used to avoid generating vacuous shards; decides nothing)"""
    w = World18([], [K_OK], d1, d2, name, zc, settle)
    w.k0 = k0
    try:
        for e in pre:
            if not w.enabled(e):
                return False
            w.do(e)
        return True
    finally:
        w.close()


def shards(tier: str) -> list:
    quick = tier == "quick"
    out = []
    oc4 = "0,2,4,5"
    oc8 = "0,1,2,3,4,5,6,7"

    def scen(desc, pre, n, k0s=(0, 2, 4, 5), outc=oc4, d1=1, d2=1, name=0, zc=0, settle=1, split=False, cond=None, evtab=None):
        """one family: fixed prefix `pre`, n symbolic events; sharded by the first attempt's outcome and,
        if split, by the first symbolic event (made part of the prefix)."""
        for k0 in k0s:
            prefixes = [list(pre)]
            nn = n
            if split:
                prefixes = [list(pre) + [e] for e in (evtab or range(NEV))]
                nn = n - 1
            for px in prefixes:
                if not _prefix_ok(px, k0, d1, d2, name, zc, settle == 1):
                    continue
                env = {"PRE": ",".join(map(str, px)), "NEVENTS": nn, "K0": k0, "OUTC": outc, "D1": d1, "D2": d2,
                       "NAME": name, "ZC": zc, "SETTLE": settle}
                if evtab:
                    env["EVTAB"] = ",".join(map(str, evtab))
                out.append({"fn": "h18a_scenario", "env": env, "cond_timeout": cond or (900 if quick else 2400),
                            "desc": f"{desc}; prefix {px}, then {nn} symbolic events; first attempt outcome {k0}"})

    L = 3 if quick else 4
    sp = not quick
    S, T = E_START, E_TIMER
    # A. main family: every attempt phase takes 1 s, loop settled after every event
    scen("phases take 1 s, loop settled after each event", [S], L, split=sp)
    # A'. deeper, from the two most interesting states: waiting after a failure / connected
    scen("from 'waiting after first failure'", [S, T], 3, k0s=(2,), split=True)
    scen("from 'connected'", [S, T, T], 3, k0s=(0,), split=True)
    # B. same-turn interleavings: events are injected without running the loop in between
    scen("events injected into the same loop turn unless time is advanced", [S], L, settle=0, split=sp)
    scen("same-turn injection with zero-delay attempts, from connected / waiting", [S, T], 3, k0s=(0,) if quick else (0, 2), outc="0,2" if quick else "0,2,5", d1=0, d2=0, settle=0, split=True)
    # C. attempts that complete without ever suspending
    scen("zero-delay attempts (start- and finish-phase failures coincide)", [S], 3, k0s=(0, 2) if quick else (0, 2, 5), outc="0,2" if quick else "0,2,5", d1=0, d2=0, split=True)
    # D. slow connect: the retry timer of an earlier failure fires while a record-triggered attempt is connecting
    scen("connect phase takes 3 s (stale retry timer vs record-triggered attempt)", [S, T, E_DELTA], 3, k0s=(2,), outc="0,2", d1=3, d2=0, split=True)
    # E. name derived from the address / unknown name / library-created zeroconf / Zeroconf passed to the manager
    for nm, zc in ((1, 0), (2, 0), (0, 1), (0, 2)):
        scen(f"name mode {nm}, zeroconf mode {zc}", [S], 2 if quick else 3, name=nm, zc=zc)
        scen(f"name mode {nm}, zeroconf mode {zc}, from 'waiting after first failure'", [S, T], 2, k0s=(2,), name=nm, zc=zc)
    # F. never started
    scen("manager that was never started", [], L, k0s=(-1,))
    # G. all eight outcome classes
    scen("all 8 outcome classes", [S], L - 1, k0s=(-1,), outc=oc8)
    # H. (thorough) six events over a reduced alphabet
    if not quick:
        scen("start() + 5 events over {next timer, unexpected end, matching PTR, start(), stop()}, outcomes {success, socket error}",
             [S], 5, k0s=(0, 2), outc="0,2", split=True, evtab=(E_TIMER, E_END_UNEXP, E_MDNS_PTR, E_START, E_STOP))
    # chains
    for d in ((0, 0), (1, 1)):
        for kind0 in range(1, 8):
            out.append({"fn": "h18b_chain", "env": {"NCHAIN": 3 if quick else 4, "D1": d[0], "D2": d[1], "KIND0": kind0}, "cond_timeout": 900 if quick else 2400,
                        "desc": f"consecutive failures, first of class {kind0}, the others symbolic over 7 error classes, then success, session end, new streak; phase delays {d}"})
    out.append({"fn": "h18d_slow_callbacks", "env": {}, "cond_timeout": 600,
                "desc": "on_connect takes 0/1/3 s; the session ends while it runs, when it returns, or later (expected/unexpected); on_disconnect and the next attempt still happen, within the cool-down after both"})
    out.append({"fn": "h18c_long", "env": {"NLONG": 12 if quick else 16}, "cond_timeout": 900,
                "desc": "12/16 consecutive failures of one symbolic non-auth class with an auth/encryption error at a symbolic position"})
    return out


BOUNDS = {
    "quick": "scenarios: start() + 3 events (4-5 from the waiting-after-failure and connected states; 2 in the name/zeroconf variants) out of {next timer, +0.25 s, session end unexpected/expected, matching PTR / matching A / non-matching record batch, start(), stop()}; attempt outcomes {success, SocketAPIError, HandshakeAPIError, InvalidAuthAPIError} (all 8 classes for 2 events), phases take 0/1/3 virtual seconds; loop settled after every event, or events injected into the same loop turn (1 s phases from start(); zero-delay phases from the connected / waiting states); chains: 3 consecutive failures over all 7 error classes, 12 failures of one class with an auth error anywhere; back-off table n = 1..12 by z3",
    "thorough": "start() + 4 events over the full alphabet (settled and same-turn modes; 3 in the zero-delay / name / zeroconf variants; 5-6 in total from the waiting / connected states), start() + 5 events over {next timer, unexpected end, matching PTR, start(), stop()} with outcomes {success, SocketAPIError}; chains of 4 over all 7 error classes; long chain of 16",
}
OUTSIDE = [
    "callbacks that raise; on_disconnect / on_connect_error callbacks that take time (a slow on_connect is covered by h18d_slow_callbacks)",
    "start() after stop() while the client still has a live session or is completing a handshake (stop() does not disconnect the client; the restarted manager then keeps trying and gets 'Already connected' from the client until the session ends)",
    "mDNS records other than PTR/A (TXT, SRV, AAAA for the device: the statement does not say)",
    "float rounding of 1.8**n (covered by the margin obligation: no power within 1e-6 of a rounding boundary)",
    "real-time behaviour of a loaded event loop (virtual clock, callbacks take zero time)",
]
ASSUMPTIONS = [
    "FakeClient: start_connection/finish_connection raise the chosen error class after the chosen virtual delay, honour cancellation, refuse a second connection like APIClient, and call on_stop as a background task when the harness ends the session",
    "zeroconf doubles (vf/stubs_zc.py): records reach the manager only through a registered listener, except while handshaking/connected where the batch is also handed over directly (the 'never' clause)",
    "ambiguities resolved as don't-care: after an auth/encryption error later non-auth failures may wait 60 s or the table value; a start() call may or may not reset the failure count; a record arriving while CONNECTING may or may not restart the attempt; a stale retry timer may restart an attempt that is still connecting",
    "SimLoop virtual-time scheduler with the real asyncio Task/Lock/timer code (DESIGN 1.3)",
    "an event that is not enabled in the current state (session end without a session, record batch nobody could receive, timer advance without timer) ends the sequence; the shorter sequence is checked in full, including the stop() epilogue (stop, deliver matching records, end the session, run all timers for 200 s)",
    "'listens while waiting' is read as: after a failed attempt, while the retry timer runs and the device name is known, a listener is registered; during the 5 s cool-down after an expected disconnect listening is don't-care",
    "shards() dry-runs each fixed event prefix natively only to avoid generating vacuous shards (decides nothing)",
]
EXPLANATION = ("C18: monitors inside the FakeClient and the callbacks check every attempt start (none while one is in flight / a session is live / after stop() returned; "
               "only at a time the statement allows: failure time + table delay, session end (+5 s if expected), matching record, start()), that due retries do happen, "
               "callback alternation and exactly-once error reports, and listener removal; z3 decides the table against exact powers of 9/5.")
