"""C14 -- models mirror the wire schema; conversion is total and value-preserving.

E2 (`smt_obligations`): enum number<->name maps and field-name sets as finite z3 relations, rebuilt
from the current tree on every run (vf/smt/c14_schema.py).
E1 (CrossHair on the real code):
  h14_from_pb      Model.from_pb(double) with symbolic field values, one (message, model) pair per shard
  h14_enum_convert every paired model enum: convert(n) for symbolic n around the declared range
  h14_convert_list APIIntEnum.convert_list on symbolic lists (order kept, unknown numbers dropped)
  h14_fix_special  fix_float_single_double_conversion: 0, -0, inf, -inf, NaN come back unchanged
  h14_fix_digits   ... finite non-zero: round() is asked for 7 - d digits (d = decade of |v|), on the
                   signed value, and its result is returned (log10 / round are contract stubs)
"""
from __future__ import annotations

import dataclasses
import math
from typing import Tuple

from aioesphomeapi import api_pb2 as PB
from aioesphomeapi import model as M
from aioesphomeapi import util as U
from aioesphomeapi.util import fix_float_single_double_conversion as FIX
from google.protobuf.descriptor import FieldDescriptor as FD

from vf import pbstub, track
from vf.harness.common import concretize, shard_int, shard_ints
from vf.smt import c14_schema as S
from vf.symtypes import IeeeFloat, same, sym_ceil
from vf.track import NoTracing

PROPERTY = "C14"

# --------------------------------------------------------------------------------------------
# known-finding aware helpers shared by E1 and E2


def _enum_sig(me) -> str:
    return "C14/enum-mismatch/" + me.__name__


_KNOWN_ENTRIES = None


def _known_entry(me) -> dict:
    """the open known_findings.json entry for this enum ({} if none / suppression switched off).
    Its "points" are the exact mismatch points attributed to the finding (E2 excludes only those), its
    "numbers" the wire numbers whose conversion is affected (E1 suppresses only those)."""
    global _KNOWN_ENTRIES
    if _KNOWN_ENTRIES is None:
        import json
        import os

        ents = {}
        p = os.path.join(os.path.dirname(os.path.dirname(os.path.dirname(os.path.abspath(__file__)))), "known_findings.json")
        try:
            with open(p) as f:
                for e in json.load(f).get("findings", []):
                    ents[e["signature"]] = e
        except FileNotFoundError:
            pass
        _KNOWN_ENTRIES = ents
    if _enum_sig(me) not in track.known_signatures():
        return {}
    return _KNOWN_ENTRIES.get(_enum_sig(me), {})


def _wire_numbers(wd) -> tuple:
    return tuple(sorted({v.number for v in wd.values}))


def enum_pair_ok(model_enum: str, wire_enum: str, suppress: bool = True, flag: bool = False) -> bool:
    """native confirmation (no solver, the real objects): numbers/names of the two enums agree.
    flag=True: the model class is an IntFlag -- the wire's zero value has no member, there is no converter."""
    me = getattr(M, model_enum)
    wd = PB.DESCRIPTOR.enum_types_by_name[wire_enum]
    allwire = [v.name for v in wd.values]
    wire = [(v.name, v.number) for v in wd.values if not (flag and v.number == 0)]
    model = [(n, int(m.value)) for n, m in me.__members__.items()]
    ok = len({n for _, n in model}) == len(model) and len({n for _, n in wire}) == len(wire)
    if ok:
        ok = any({(nm[len(p):], num) for nm, num in wire} == set(model) for p in S.prefixes_of(allwire))
    if ok and not flag:
        # and the converter really maps every wire number to the member of that number
        ok = all(me.convert(num) is not None and int(me.convert(num)) == num for _, num in wire)
    if not ok:
        why = f"model enum {model_enum} {model} does not mirror wire enum {wire_enum} {wire}"
        return track.fail(why, _enum_sig(me)) if suppress else track.fail(why)
    return True


def fields_pair_ok(pb_name: str, model_name: str) -> bool:
    pb, md = getattr(PB, pb_name), getattr(M, model_name)
    a, b = {f.name for f in pb.DESCRIPTOR.fields}, {f.name for f in dataclasses.fields(md)}
    if a != b:
        return track.fail(f"{model_name} fields differ from {pb_name}: wire-only {sorted(a - b)}, model-only {sorted(b - a)}")
    return True


def text_descriptor_ok() -> bool:
    txt = S.wire_enums_from_text()
    desc = {n: [(v.name, v.number) for v in e.values] for n, e in PB.DESCRIPTOR.enum_types_by_name.items()}
    if txt != desc:
        return track.fail("enums in api.proto text differ from the compiled descriptors")
    return True


def smt_obligations(tier: str) -> list:
    out = []
    out.append(_confirm(S.text_vs_descriptor_obligation(), "text_descriptor_ok()"))
    pairs, unpaired = S.enum_pairs()
    for me, wd, origin in pairs:
        pts = [tuple(p) for p in _known_entry(me).get("points", [])]
        ob = S.enum_obligation(me, wd, origin, pts)
        out.append(_confirm(ob, f"enum_pair_ok({me.__name__!r}, {wd.name!r}, False)"))
    fpairs, unpaired_wire = S.flag_enum_pairs()
    for me, wd, origin in fpairs:
        pts = [tuple(p) for p in _known_entry(me).get("points", [])]
        ob = S.enum_obligation(me, wd, origin, pts, flag=True)
        out.append(_confirm(ob, f"enum_pair_ok({me.__name__!r}, {wd.name!r}, False, True)"))
    if unpaired_wire:
        out.append({"name": "enum/unpaired-wire", "status": "unknown", "seconds": 0, "queries": 0,
                    "what": f"wire enums that no model enum is paired with: {unpaired_wire}"})
    if unpaired:
        out.append({"name": "enum/unpaired", "status": "unknown", "seconds": 0, "queries": 0,
                    "what": f"model enums without a wire counterpart found: {unpaired}"})
    for pb, md, origin in S.message_pairs():
        out.append(_confirm(S.fields_obligation(pb, md, origin), f"fields_pair_ok({pb.__name__!r}, {md.__name__!r})"))
    # every `X.from_pb(` call site names a paired model class
    paired = {md.__name__ for _pb, md, _o in S.message_pairs()}
    import z3

    names = sorted({n for _f, n in S.from_pb_call_sites() if n != "cls"})
    resolved = []
    for n in names:
        obj = getattr(__import__("aioesphomeapi.client", fromlist=["x"]), n, None) or getattr(M, n, None)
        resolved.append(getattr(obj, "__name__", n))
    ids = {n: i for i, n in enumerate(sorted(set(resolved) | paired))}
    x = z3.Int("x")
    s = z3.Solver()
    s.add(z3.Or([x == ids[n] for n in resolved]), z3.Not(z3.Or([x == ids[n] for n in paired])))
    st = str(s.check())
    ob = {"name": "pairs/from_pb-call-sites-covered", "status": "unsat" if st == "unsat" else "unknown", "seconds": 0.0, "queries": 1,
          "what": "every model class named at a from_pb call site is in the pairing list that is checked"}
    if st == "sat":
        ob["what"] += ": NOT covered: " + [n for n, i in ids.items() if i == s.model()[x].as_long()][0]
    out.append(ob)
    return out


def _confirm(ob: dict, call: str) -> dict:
    """a sat witness is confirmed natively against the real objects before it is reported."""
    ob["replay_call"] = call
    if ob["status"] == "sat":
        with NoTracing():
            ob["reproduced"] = eval(call, globals()) is not True  # noqa: S307
    return ob


# --------------------------------------------------------------------------------------------
# E1: fix_float_single_double_conversion


def h14_fix_special(v: IeeeFloat) -> bool:
    """
    pre: v == 0.0 or v != v or v == float("inf") or v == float("-inf")
    post: _
    """
    track.entered()
    r = FIX(v)
    if track.reached():
        return False
    if r is v:
        return True
    if not same(r, v):
        return track.fail("fix_float: zero / infinity / NaN is not returned unchanged")
    if v == 0.0 and math.copysign(1.0, r) != math.copysign(1.0, v):
        return track.fail("fix_float: sign of zero changed")
    return True


class _MathStub:
    """`math` as seen by util.py for h14_fix_digits: log10 is a contract stub."""

    def __init__(self, x_expected, answer):
        self.x_expected = x_expected
        self.answer = answer
        self.log_calls = []
        self.isfinite = math.isfinite

    def ceil(self, x):
        return sym_ceil(x)  # math.ceil natively; round-toward-+inf encoding for a symbolic float

    def log10(self, x):
        self.log_calls.append(x)
        return self.answer


DLO, DHI = -45, 39
DSEL0 = shard_int("DSEL0", 0)  # this shard's slice of the decade selector
DSEL1 = shard_int("DSEL1", DHI - DLO)


def h14_fix_digits(v: IeeeFloat, lg: IeeeFloat, dsel: int) -> bool:
    """
    pre: 0 <= DSEL0 <= dsel <= DSEL1 <= DHI - DLO
    pre: v == v and v != 0.0 and v != float("inf") and v != float("-inf")
    post: _
    """
    track.entered()
    d = concretize(dsel, DHI - DLO) + DLO
    lo, hi = float("1e%d" % (d - 1)), float("1e%d" % d)
    a = -v if v < 0.0 else v
    if not (lo < a <= hi):  # |v| lies in decade d ...
        return True
    if not (float(d - 1) < lg <= float(d)):  # ... and log10 honours its contract there: d-1 < log10|v| <= d
        return True
    ms = _MathStub(a, lg)
    rounds = []
    token = object()

    def round_stub(x, nd=None):
        rounds.append((x, nd))
        return token

    old_math = U.math
    U.math = ms
    U.round = round_stub
    try:
        r = FIX(v)
    finally:
        U.math = old_math
        del U.round
    if track.reached():
        return False
    if len(ms.log_calls) != 1 or not same(ms.log_calls[0], a):
        return track.fail("fix_float: log10 is not taken of |v|")
    if len(rounds) != 1:
        return track.fail("fix_float: round() not called exactly once")
    x, nd = rounds[0]
    if x is not v and not (same(x, v)):
        return track.fail("fix_float: the value handed to round() is not the signed input")
    if nd != 7 - d:
        return track.fail("fix_float: digits argument is not 7 - ceil(log10|v|) (7 significant digits) in decade " + str(d))
    if r is not token:
        return track.fail("fix_float: result of round() is not what is returned")
    return True


# --------------------------------------------------------------------------------------------
# E1: enum converters

_ENUM_PAIRS, _UNPAIRED = S.enum_pairs()
EIDX = shard_int("EIDX", 0)
_ME, _WD, _EO = _ENUM_PAIRS[EIDX % len(_ENUM_PAIRS)]
E_NUMS = _wire_numbers(_WD)
E_LO, E_HI = min(E_NUMS) - 2, max(E_NUMS) + 2


def _enum_result_ok(me, nums, n, r, what: str) -> bool:
    """r is what the model presents for wire number n: the member of that number, None when unknown."""
    if n in nums:
        if r is None or type(r) is not me or int(r) != n:
            why = what + ": a declared wire number is not presented as the member with that number"
            if n in tuple(_known_entry(me).get("numbers", ())):
                return track.fail(why, _enum_sig(me))
            return track.fail(why)
    elif r is not None:
        return track.fail(what + ": an unknown wire number is not presented as None")
    return True


def h14_enum_convert(n: int) -> bool:
    """
    pre: E_LO <= n <= E_HI
    post: _
    """
    track.entered()
    try:
        r = _ME.convert(n)
    except Exception:  # noqa: BLE001
        return track.fail("enum convert raised")
    if track.reached():
        return False
    return _enum_result_ok(_ME, E_NUMS, n, r, _ME.__name__ + ".convert")


LLEN = shard_int("LLEN", 3)


def h14_convert_list(ln: int, e0: int, e1: int, e2: int, e3: int) -> bool:
    """
    pre: 0 <= ln <= LLEN
    pre: E_LO <= e0 <= E_HI and E_LO <= e1 <= E_HI and E_LO <= e2 <= E_HI and E_LO <= e3 <= E_HI
    post: _
    """
    track.entered()
    k = concretize(ln, LLEN)
    src = [e0, e1, e2, e3][:k]
    try:
        r = _ME.convert_list(list(src))
    except Exception:  # noqa: BLE001
        return track.fail("enum convert_list raised")
    if track.reached():
        return False
    return _enum_list_ok(_ME, E_NUMS, src, r, _ME.__name__ + ".convert_list")


def _enum_list_ok(me, nums, src, r, what: str) -> bool:
    exp = [x for x in src if x in nums]
    if not isinstance(r, list) or len(r) != len(exp):
        return track.fail(what + ": known numbers were dropped or unknown ones kept")
    for a, b in zip(r, exp):
        if type(a) is not me or int(a) != b:
            return track.fail(what + ": order or value of the known numbers not preserved")
    return True


# --------------------------------------------------------------------------------------------
# E1: Model.from_pb(double) for one (message, model) pair per shard

F_TABLE = (  # float32 values (as doubles) used for the fields that go through fix_float (index is realised)
    0.0, -0.0, float("inf"), float("-inf"), float("nan"),
    0.10000000149011612, 21.299999237060547, -1.100000023841858, -123456.7890625,
    1.401298464324817e-45, 1.1754943508222875e-38, 3.4028234663852886e38, 16777216.0, 9.999999046325684,
)


def ref7(v: float) -> float:
    """reference: v rounded to 7 significant decimal digits (zero, infinities, NaN unchanged)."""
    if v == 0 or v != v or v in (float("inf"), float("-inf")):
        return v
    return float(format(v, ".7g"))


def _e1_pairs() -> list:
    out = []
    for pb, md, origin in S.message_pairs():
        if _supported(pb, md):
            out.append((pb, md, origin))
    return out


def _conv_kind(md, fname):
    for f in dataclasses.fields(md):
        if f.name == fname:
            return f.metadata.get("converter")
    return None


def _classify(pb, md, fd):
    """kind of one field of the pair, or None when this harness has no oracle for it."""
    conv = _conv_kind(md, fd.name)
    owner = getattr(conv, "__self__", None)
    rep = bool(fd.is_repeated)
    if fd.type == FD.TYPE_MESSAGE:
        sub = fd.message_type._concrete_class
        if conv is M._convert_homeassistant_service_map and rep:
            return ("map", sub)
        if isinstance(owner, type) and dataclasses.is_dataclass(owner) and getattr(conv, "__name__", "") == "convert_list" and rep:
            return ("msg_list", sub, owner) if _supported(sub, owner) else None
        if isinstance(owner, type) and dataclasses.is_dataclass(owner) and getattr(conv, "__name__", "") == "from_pb" and not rep:
            return ("msg", sub, owner) if _supported(sub, owner) else None
        return None
    if fd.type == FD.TYPE_ENUM and isinstance(owner, type) and issubclass(owner, M.APIIntEnum):
        if rep and conv.__name__ == "convert_list":
            return ("enum_list", owner, _wire_numbers(fd.enum_type))
        if not rep and conv.__name__ == "convert":
            return ("enum", owner, _wire_numbers(fd.enum_type))
        return None
    if rep:
        if conv is not list and conv is not None:
            return None
        if fd.type == FD.TYPE_STRING:
            return ("str_list",)
        if fd.type in _INT_TYPES or fd.type == FD.TYPE_ENUM:
            return ("int_list",)
        return None
    if fd.type == FD.TYPE_FLOAT and conv is FIX:
        return ("cfloat",)
    if conv is not None:
        return None
    if fd.type == FD.TYPE_BOOL:
        return ("bool",)
    if fd.type in _INT_TYPES or fd.type == FD.TYPE_ENUM:
        return ("int",)
    if fd.type == FD.TYPE_STRING:
        return ("str",)
    if fd.type == FD.TYPE_BYTES:
        return ("bytes",)
    if fd.type in (FD.TYPE_FLOAT, FD.TYPE_DOUBLE):
        return ("float",)
    return None


_INT_TYPES = (FD.TYPE_INT32, FD.TYPE_INT64, FD.TYPE_UINT32, FD.TYPE_UINT64, FD.TYPE_SINT32, FD.TYPE_SINT64,
              FD.TYPE_FIXED32, FD.TYPE_FIXED64, FD.TYPE_SFIXED32, FD.TYPE_SFIXED64)
_SUP_CACHE: dict = {}


def _supported(pb, md) -> bool:
    key = (pb, md)
    if key not in _SUP_CACHE:
        _SUP_CACHE[key] = False  # recursion guard
        ok = dataclasses.is_dataclass(md) and issubclass(md, M.APIModelBase)
        if ok:
            ok = {f.name for f in dataclasses.fields(md)} == {f.name for f in pb.DESCRIPTOR.fields}
        if ok:
            ok = all(_classify(pb, md, fd) is not None for fd in pb.DESCRIPTOR.fields)
        _SUP_CACHE[key] = ok
    return _SUP_CACHE[key]


_SPEC: dict = {}


def _spec(pb, md) -> list:
    """[(field name, classification)] in descriptor order -- computed once at import, not per path."""
    key = (pb, md)
    if key not in _SPEC:
        _SPEC[key] = [(fd.name, _classify(pb, md, fd)) for fd in pb.DESCRIPTOR.fields]
    return _SPEC[key]


class _Alloc:
    """hands out the symbolic pool values in a fixed order; in counting mode only counts."""

    def __init__(self, pools=None):
        self.pools = pools
        self.n = {"int": 0, "bool": 0, "str": 0, "bytes": 0, "float": 0}
        self.slots = {"enum": 0, "cfloat": 0, "enum_list": 0}

    def take(self, kind):
        i = self.n[kind]
        self.n[kind] += 1
        if self.pools is None:
            return {"int": 0, "bool": False, "str": "", "bytes": b"", "float": 0.0}[kind]
        return self.pools[kind][i]

    def slot(self, kind):
        i = self.slots[kind]
        self.slots[kind] += 1
        return i


class _Ctl:
    """which aspect is varied on this path (one at a time), everything else scalar stays symbolic."""

    def __init__(self, mode=0, ewhich=0, evalue=0, fwhich=0, fvalue=0.0, lwhich=0, elist=(), rlen=1):
        self.mode, self.ewhich, self.evalue, self.fwhich, self.fvalue = mode, ewhich, evalue, fwhich, fvalue
        self.lwhich, self.elist, self.rlen = lwhich, elist, rlen
        self.skip = False  # set when a list element lies beyond [min-2, max+2] of ITS enum


def _build(pb, md, al: _Alloc, ctl: _Ctl, depth=0):
    """-> (double of pb carrying the values, {field: ('kind', given...)}) in descriptor order."""
    stub = pbstub.make_stub(pb)()
    given = {}
    for name, k in _spec(pb, md):
        kind = k[0]
        if kind in ("bool", "int", "str", "bytes", "float"):
            v = al.take(kind)
            setattr(stub, name, v)
            given[name] = (kind, v)
        elif kind == "cfloat":
            sl = al.slot("cfloat")
            v = ctl.fvalue if (ctl.mode == 1 and sl == ctl.fwhich) else 0.5 * (sl + 1)
            setattr(stub, name, v)
            given[name] = (kind, v)
        elif kind == "enum":
            sl = al.slot("enum")
            nums = k[2]
            v = ctl.evalue + (nums[0] - 2) if (ctl.mode == 0 and sl == ctl.ewhich) else nums[min(1, len(nums) - 1)]
            if ctl.mode == 0 and sl == ctl.ewhich and v > nums[-1] + 2:
                ctl.skip = True
            setattr(stub, name, v)
            given[name] = (kind, v, k[1], nums)
        elif kind == "enum_list":
            sl = al.slot("enum_list")
            nums = k[2]
            v = [x + (nums[0] - 2) for x in ctl.elist] if (ctl.mode == 2 and sl == ctl.lwhich) else [nums[-1], nums[0]]
            if ctl.mode == 2 and sl == ctl.lwhich:
                for x in v:
                    if x > nums[-1] + 2:
                        ctl.skip = True
            getattr(stub, name).extend(v)
            given[name] = (kind, v, k[1], nums)
        elif kind in ("str_list", "int_list"):
            v = [al.take("str" if kind == "str_list" else "int") for _ in range(ctl.rlen)]
            getattr(stub, name).extend(v)
            given[name] = (kind, v)
        elif kind == "map":
            items = []
            for j in range(ctl.rlen):
                e = pbstub.make_stub(k[1])()
                e.key = "k%d" % j  # concrete distinct keys (a symbolic dict key is realised = enumerated)
                e.value = al.take("str")
                items.append(e)
            getattr(stub, name).extend(items)
            given[name] = (kind, [(e.key, e.value) for e in items])
        elif kind == "msg_list":
            subs = [_build(k[1], k[2], al, ctl, depth + 1) for _ in range(ctl.rlen)]
            getattr(stub, name).extend([s for s, _g in subs])
            given[name] = (kind, [g for _s, g in subs], k[2])
        elif kind == "msg":
            sub, g = _build(k[1], k[2], al, ctl, depth + 1)
            tgt = getattr(stub, name)
            for kk, vv in sub._set.items():
                tgt._set[kk] = vv
            given[name] = (kind, g, k[2])
        else:
            raise RuntimeError("harness: unclassified field " + name)
    return stub, given


def _model_ok(m, md, given, what: str) -> bool:
    if type(m) is not md:
        return track.fail(what + ": from_pb returned another class")
    for name, g in given.items():
        kind = g[0]
        got = getattr(m, name)
        w = what + "." + name
        if kind in ("bool", "int", "str", "bytes", "float"):
            if not same(got, g[1]):
                return track.fail(w + ": value not preserved")
        elif kind == "cfloat":
            with NoTracing():
                exp = ref7(g[1])
            if not same(got, exp):
                return track.fail(w + ": not the input rounded to 7 significant digits (0, inf, NaN unchanged)")
            if exp == 0 and math.copysign(1.0, got) != math.copysign(1.0, exp):
                return track.fail(w + ": sign of zero changed")
        elif kind == "enum":
            if not _enum_result_ok(g[2], g[3], g[1], got, w):
                return False
        elif kind == "enum_list":
            if not _enum_list_ok(g[2], g[3], g[1], got, w):
                return False
        elif kind in ("str_list", "int_list"):
            if not isinstance(got, list) or len(got) != len(g[1]):
                return track.fail(w + ": list length not preserved")
            for a, b in zip(got, g[1]):
                if not same(a, b):
                    return track.fail(w + ": list element not preserved")
        elif kind == "map":
            exp = {}
            for kk, vv in g[1]:
                exp[kk] = vv
            if not isinstance(got, dict) or len(got) != len(exp):
                return track.fail(w + ": map size not preserved")
            for kk in exp:
                if kk not in got or not same(got[kk], exp[kk]):
                    return track.fail(w + ": map entry not preserved")
        elif kind == "msg_list":
            if not isinstance(got, list) or len(got) != len(g[1]):
                return track.fail(w + ": nested list length not preserved")
            for a, sub in zip(got, g[1]):
                if not _model_ok(a, g[2], sub, w + "[]"):
                    return False
        elif kind == "msg":
            if not _model_ok(got, g[2], g[1], w):
                return False
    return True


def _deep_same(a, b) -> bool:
    if dataclasses.is_dataclass(a) and not isinstance(a, type):
        if type(a) is not type(b):
            return False
        return all(_deep_same(getattr(a, f.name), getattr(b, f.name)) for f in dataclasses.fields(a))
    if isinstance(a, list):
        return isinstance(b, list) and len(a) == len(b) and all(_deep_same(x, y) for x, y in zip(a, b))
    if isinstance(a, dict):
        return isinstance(b, dict) and len(a) == len(b) and all(k in b and _deep_same(v, b[k]) for k, v in a.items())
    if a is None or b is None:
        return a is b
    return same(a, b)


_E1 = _e1_pairs()
PAIR = shard_int("PAIR", 0)
P_PB, P_MD, P_ORIGIN = _E1[PAIR % len(_E1)]
RMAX = shard_int("RMAX", 2)
LMAX = shard_int("LMAX", 2)
_cnt = _Alloc()
_build(P_PB, P_MD, _cnt, _Ctl(rlen=RMAX))
N_ENUM, N_CFLOAT, N_ELIST = _cnt.slots["enum"], _cnt.slots["cfloat"], _cnt.slots["enum_list"]


def _tup(t, n):
    # (never a 1-tuple: CrossHair prints a counterexample's 1-tuple as "(x)", which does not replay)
    # (never Tuple[()]: on Python >= 3.11 CrossHair reads it as Tuple[object, ...])
    return Tuple[tuple([t] * max(n, 2))]


INTS = _tup(int, _cnt.n["int"])
BOOLS = _tup(bool, _cnt.n["bool"])
STRS = _tup(str, _cnt.n["str"])
BYTS = _tup(bytes, _cnt.n["bytes"])
FLTS = _tup(IeeeFloat, _cnt.n["float"])
N_STR, N_BYT = _cnt.n["str"], _cnt.n["bytes"]
# enum numbers a varied enum field / list element ranges over: [min-2, max+2] over all enums of the pair
_all_nums = [n for fd in P_PB.DESCRIPTOR.fields if fd.enum_type is not None for n in _wire_numbers(fd.enum_type)]
for _fd in P_PB.DESCRIPTOR.fields:
    if _fd.message_type is not None:
        _all_nums += [n for f2 in _fd.message_type.fields if f2.enum_type is not None for n in _wire_numbers(f2.enum_type)]
# a varied enum number is  (min of ITS enum - 2) + offset,  offset in [0, V_HI]; offsets beyond max+2 are skipped
V_LO, V_HI = 0, (max(_all_nums) - min(_all_nums) + 4) if _all_nums else 0
MODES = tuple(shard_ints("MODES", "0,1,2,3"))
WHICH = shard_int("WHICH", -1)
# the statement demands the to_dict/from_dict round trip of entity-info, entity-state, device-info, user-service
HAS_ROUNDTRIP = shard_int("ROUNDTRIP", 1) and (issubclass(P_MD, (M.EntityInfo, M.EntityState)) or P_MD in (M.DeviceInfo, M.UserService, M.UserServiceArg))


def _short(strs, byts) -> bool:
    for s in strs:
        if len(s) > 2:
            return False
    for b in byts:
        if len(b) > 2:
            return False
    return True


def h14_from_pb(mode: int, which: int, value: int, ln: int, e0: int, e1: int, e2: int,
                ints: INTS, bools: BOOLS, strs: STRS, byts: BYTS, flts: FLTS) -> bool:
    """
    pre: 0 <= mode <= 3 and 0 <= which and 0 <= ln
    pre: mode in MODES and (WHICH < 0 or which == WHICH)
    pre: V_LO <= value <= V_HI and V_LO <= e0 <= V_HI and V_LO <= e1 <= V_HI and V_LO <= e2 <= V_HI
    pre: _short(strs, byts)
    post: _
    """
    track.entered()
    md = concretize(mode, 3)
    ctl = _Ctl(mode=md)
    if md == 0:  # one enum field at a time takes a symbolic number around the declared range
        if ln != 0:
            return True
        if N_ENUM == 0:
            if which != 0:
                return True
        else:
            if which >= N_ENUM:
                return True
            ctl.ewhich = concretize(which, N_ENUM - 1)
            ctl.evalue = value
    elif md == 1:  # one rounded-float field at a time takes a value of the float32 table
        if N_CFLOAT == 0 or which >= N_CFLOAT or ln >= len(F_TABLE):
            return True
        ctl.fwhich = concretize(which, N_CFLOAT - 1)
        ctl.fvalue = F_TABLE[concretize(ln, len(F_TABLE) - 1)]
    elif md == 2:  # one repeated enum field at a time takes a symbolic list
        if N_ELIST == 0 or which >= N_ELIST or ln > LMAX:
            return True
        ctl.lwhich = concretize(which, N_ELIST - 1)
        ctl.elist = [e0, e1, e2][: concretize(ln, LMAX)]
    else:  # every repeated field / map / nested list has ln elements
        if which != 0 or ln > RMAX:
            return True
        ctl.rlen = concretize(ln, RMAX)
    return _plain(ctl, ints, bools, strs, byts, flts)


def _plain(ctl, ints, bools, strs, byts, flts) -> bool:
    al = _Alloc({"int": ints, "bool": bools, "str": strs, "bytes": byts, "float": flts})
    stub, given = _build(P_PB, P_MD, al, ctl)
    if ctl.skip:
        return True
    try:
        m = P_MD.from_pb(stub)
    except Exception:  # noqa: BLE001
        return track.fail(P_MD.__name__ + ".from_pb raised on a valid message")
    if track.reached():
        return False
    if not _model_ok(m, P_MD, given, P_MD.__name__):
        return False
    if HAS_ROUNDTRIP:
        try:
            m2 = P_MD.from_dict(m.to_dict())
        except Exception:  # noqa: BLE001
            return track.fail(P_MD.__name__ + ": from_dict(to_dict(m)) raised")
        if not _deep_same(m2, m):
            return track.fail(P_MD.__name__ + ": from_dict(to_dict(m)) != m")
    return True


# --------------------------------------------------------------------------------------------


def shards(tier: str) -> list:
    out = [{"fn": "h14_fix_special", "env": {}, "cond_timeout": 120, "desc": "fix_float: 0, -0, inf, -inf, NaN unchanged"}]
    step = 15 if tier == "quick" else 9
    for a in range(0, DHI - DLO + 1, step):
        b = min(a + step - 1, DHI - DLO)
        out.append({"fn": "h14_fix_digits", "env": {"DSEL0": a, "DSEL1": b}, "cond_timeout": 300,
                    "desc": f"fix_float: round() gets 7 - d digits for every decade d in [{a + DLO}, {b + DLO}] (log10/round contract stubs)"})
    for i, (me, wd, _o) in enumerate(_ENUM_PAIRS):
        out.append({"fn": "h14_enum_convert", "env": {"EIDX": i}, "cond_timeout": 120,
                    "desc": f"{me.__name__}.convert(n), n in [min-2, max+2] of wire enum {wd.name}"})
    names = [me.__name__ for me, _w, _o in _ENUM_PAIRS]
    lists = [("FanDirection", 3), ("ClimateSwingMode", 3)] if tier == "quick" else [("FanDirection", 4), ("ClimateSwingMode", 4), ("ClimateMode", 3), ("ClimatePreset", 3)]
    for nm, ll in lists:
        if nm in names:
            out.append({"fn": "h14_convert_list", "env": {"EIDX": names.index(nm), "LLEN": ll}, "cond_timeout": 600,
                        "desc": f"{nm}.convert_list on symbolic lists of length <= {ll}"})
    for i, (pb, md, _o) in enumerate(_E1):
        env = {"PAIR": i, "RMAX": 2 if tier == "quick" else 3, "LMAX": 2 if tier == "quick" else 3}
        desc = f"{md.__name__}.from_pb({pb.__name__} double) + to_dict/from_dict round trip"
        c = _Alloc()
        _build(pb, md, c, _Ctl(rlen=1))
        to = 400 if tier == "quick" else 1500
        if c.slots["enum_list"]:
            out.append({"fn": "h14_from_pb", "env": dict(env, MODES="0,1,3"), "cond_timeout": to, "desc": desc + " [enum fields, rounded floats, repeated lengths]"})
            for w in range(c.slots["enum_list"]):
                out.append({"fn": "h14_from_pb", "env": dict(env, MODES="2", WHICH=w), "cond_timeout": to, "desc": desc + f" [repeated enum field #{w}: symbolic lists]"})
        else:
            out.append({"fn": "h14_from_pb", "env": env, "cond_timeout": to, "desc": desc})
    return out


_UNSUPPORTED = sorted({md.__name__ for pb, md, _o in S.message_pairs() if not _supported(pb, md)})

BOUNDS = {
    "quick": {
        "E2 schema": "all paired enums (converter fields <-> descriptor enum_type, APIClient command/enum parameters <-> request fields, same-name "
                     "rest, listed flag enums; an unpaired model enum or wire enum makes the check inconclusive) and all (message, model) pairs of SUBSCRIBE_STATES_RESPONSE_TYPES, LIST_ENTITIES_SERVICES_RESPONSE_TYPES and the "
                     "from_pb call sites (DeviceInfo, UserService, UserServiceArg, HomeassistantServiceCall, Bluetooth*, VoiceAssistant*, "
                     "MediaPlayerSupportedFormat); api.proto text vs descriptors for all enums; exact (finite relations, no bound)",
        "from_pb": "per pair: all bool/int/str(len<=2)/bytes(len<=2)/plain-float(any double) fields symbolic TOGETHER; one aspect varied at a time: "
                   "(0) one enum field takes a symbolic number in [min-2, max+2] of its wire enum, (1) one rounded-float field takes each value of "
                   "a 14-entry float32 table (+-0, +-inf, NaN, 0.1f, 21.3f, -1.1f, -123456.79f, min subnormal, FLT_MIN, FLT_MAX, 2^24, 9.999999f), "
                   "(2) one repeated enum field takes a symbolic list of length <= 2 over [min-2, max+2], (3) every repeated/map/nested-list field "
                   "has 0..2 elements; nested messages one level (UserService.args, MediaPlayerInfo.supported_formats, VoiceAssistantCommand.audio_settings)",
        "enum converters": "every paired model enum: convert(n), n in [min-2, max+2]; convert_list on symbolic lists of length <= 3 (FanDirection, ClimateSwingMode)",
        "fix_float": "v any double that is 0/-0/inf/-inf/NaN: returned unchanged; v any other double with 1e-46 < |v| <= 1e39 (85 decades, covers every "
                     "finite non-zero float32): digits argument of round == 7 - d, round gets the signed v, its result is returned",
    },
    "thorough": {"as quick, plus": "repeated enum lists of length <= 3, repeated/map/nested fields of 0..3 elements, convert_list length <= 4 (FanDirection, ClimateSwingMode) and <= 3 (ClimateMode, ClimatePreset)"},
}
OUTSIDE = [
    "that libm log10 and CPython round(x, n) honour the contract stubs on every float32 bit pattern (C code, transcendental): "
    "log10 is assumed to return a value in (d-1, d] for 10^(d-1) < |v| <= 10^d, round(x, n) is opaque; the rounded-float fields are "
    "therefore exercised end-to-end only on the 14-entry table, against the reference float(format(v, '.7g'))",
    "str / bytes values longer than 2, repeated fields longer than the stated bound, several enum / rounded-float fields varied simultaneously",
    "map keys of HomeassistantServiceCall are concrete distinct strings (values symbolic)",
    "from_pb of: " + ", ".join(_UNSUPPORTED) + " (uuid / advertisement converters run C code; only their field-name sets are checked)",
    "to_dict/from_dict round trip of model classes other than entity-info, entity-state, DeviceInfo, UserService(Arg) (not demanded by the statement)",
    "the protobuf parser itself (messages are pbstub doubles carrying values of the descriptor's types)",
]
ASSUMPTIONS = [
    "names match = wire value name == P + model member name for ONE '_'-terminated prefix P common to all values of that wire enum (or P empty)",
    "pbstub doubles (named fields, descriptor defaults, repeated containers are list subclasses)",
    "vf/symtypes.py: IeeeFloat = one z3 Float64 per float; sym_ceil = round-toward-+inf encoding of math.ceil for a finite symbolic float",
    "h14_fix_digits replaces util.math.log10 by a contract stub (returns ANY value lg with d-1 < lg <= d) and builtin round (as seen from util.py) by a recorder",
    "reference for the rounded-float fields: float(format(v, '.7g')) (correctly rounded 7 significant decimal digits)",
    "flag enums (enum.IntFlag paired with a wire enum that declares the bits of a uint32 flags field: VoiceAssistantSubscriptionFlag): every member <-> every NON-ZERO wire value, same name rule; no converter exists for them",
    "known findings C14/enum-mismatch/<Enum> (see known_findings.json: UpdateCommand name-only, VoiceAssistantSubscriptionFlag.API_AUDIO): exactly the listed (number, name) points / numbers are excluded from the queries and oracles, everything else about those enums is still checked",
]
EXPLANATION = ("C14: E2 = z3 finds no (number, name) / field name present on one side only and no alias; E1 = Model.from_pb on doubles never raises, "
               "every field equals its input (unknown enum number -> None / dropped in order, rounded floats == 7-significant-digit reference), "
               "from_dict(to_dict(m)) == m field-wise; fix_float asks round() for 7 - ceil(log10|v|) digits in every decade.")
