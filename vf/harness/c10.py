"""C10 -- keepalive: ping only when idle; silent peer dropped in (5.5K, 6.5K]; live never."""
from __future__ import annotations

import time as _time

import aioesphomeapi.connection as CN
from aioesphomeapi.connection import APIConnection, ConnectionParams, ConnectionState
from aioesphomeapi.core import PingFailedAPIError

from vf import track
from vf.harness.common import StubHelper, base_loop, concretize, shard_int

PROPERTY = "C10"
PING_REQ_PACKET = (7, b"")
# "no message at all arrived": every kind of well-formed message counts -- the device's own requests
# (which the client answers), responses, state updates, and types the client has no handler for
MSG_KINDS = [(8, b""), (7, b""), (25, b"\x0d\x01\x00\x00\x00"), (26, b""), (29, b"")]
MSGK = shard_int("MSGK", 0)
REPLY_OF = {7: 8}  # requests of the device that the client answers


class _Handle:
    def __init__(self, when, cb, args):
        self.when = when
        self.cb = cb
        self.args = args
        self.cancelled = False

    def cancel(self):
        self.cancelled = True


class StubLoop:
    """clock + timer table: time() is whatever the harness says, call_at records (when, callback)."""

    def __init__(self, now=0):
        self.now = now
        self.timers = []
        self._real = base_loop()

    def time(self):
        return self.now

    def call_at(self, when, cb, *args):
        h = _Handle(when, cb, args)
        self.timers.append(h)
        return h

    def create_future(self):
        return self._real.create_future()

    def live(self):
        return [h for h in self.timers if not h.cancelled]

    def next_timer(self):
        best = None
        for h in self.timers:
            if h.cancelled:
                continue
            if best is None or h.when < best.when:
                best = h
        return best


def _conn(half, loop):
    """connection in CONNECTED with K = 2 * half installed directly as exact integers (interval 2*half,
    pong timeout 9*half). CrossHair models float arithmetic bit-precisely (z3 FP theory), which makes
    `K * 4.5` with a symbolic K intractable; the constructor's computation is checked by h10d_ctor."""
    params = ConnectionParams(addresses=["x"], port=1, password=None, client_info="c", keepalive=20.0,
                              zeroconf_manager=None, noise_psk=None, expected_name=None)
    stops = []
    conn = APIConnection(params, stops.append, False, "x")
    conn._loop = loop
    helper = StubHelper()
    conn._frame_helper = helper
    conn._set_connection_state(ConnectionState.HANDSHAKE_COMPLETE)
    conn._register_internal_message_handlers()
    conn._set_connection_state(ConnectionState.CONNECTED)
    conn._keep_alive_interval = 2 * half
    conn._keep_alive_timeout = 9 * half
    return conn, helper, stops, True


CTOR_KS = (0.5, 1, 2.0, 15, 20.0, 20, 30, 45.5, 60, 90.0, 300, 3600.0)


def h10d_ctor(sel: int) -> bool:
    """
    pre: 0 <= sel < len(CTOR_KS)
    post: _
    """
    # the constructor derives interval K and pong timeout 4.5*K from the configured keepalive
    from fractions import Fraction

    track.entered()
    k = CTOR_KS[concretize(sel, len(CTOR_KS) - 1)]
    base_loop()
    params = ConnectionParams(addresses=["x"], port=1, password=None, client_info="c", keepalive=k,
                              zeroconf_manager=None, noise_psk=None, expected_name=None)
    conn = APIConnection(params, None, False, "x")
    if track.reached():
        return False
    if Fraction(conn._keep_alive_interval) != Fraction(k):
        return track.fail(f"keep-alive interval {conn._keep_alive_interval} != configured K={k}")
    if Fraction(conn._keep_alive_timeout) != Fraction(k) * Fraction(9, 2):
        return track.fail(f"pong timeout {conn._keep_alive_timeout} != 4.5*K for K={k}")
    return True


# ------------------------------------------------------------------------------------------------
# H10a: each real callback is exactly one step of the reference automaton, from every abstract state
#   abstract state: pending (no message since the last tick), pong deadline (armed or not), K
# ------------------------------------------------------------------------------------------------
def h10a_step(which: int, k: int, now: int, pending: bool, armed: bool, deadline: int) -> bool:
    """
    pre: which == WHICH
    pre: 1 <= k <= 10**7
    pre: which != 2 or k == 20 or k == 1 or k == 30000
    pre: 0 <= now <= 10**12
    pre: now <= deadline <= 10**13
    post: _
    """
    # times are integers in units of 1/2 ms so that 4.5*K is exact; K = k/2 ms -- any positive K on that grid.
    # The pong-expiry step formats K into its error message (realises it), and does not depend on K
    # otherwise: three representative K values there.
    track.entered()
    w = WHICH
    loop = StubLoop(now)
    conn, helper, stops, ok = _conn(k, loop)
    k = 2 * k  # K on a grid where 4.5*K is integral
    if not ok:
        return track.fail("constructor: keep-alive interval != K or pong timeout != 4.5*K")
    # install the abstract pre-state
    conn._send_pending_ping = pending
    tick_handle = loop.call_at(now, conn._async_send_keep_alive)  # the tick timer that is firing / armed
    conn._ping_timer = tick_handle
    pong_handle = None
    if armed:
        pong_handle = loop.call_at(deadline, conn._async_pong_not_received)
        conn._pong_timer = pong_handle
    if w == 0:
        tick_handle.cancelled = True  # the loop popped it: it is firing now
        conn._async_send_keep_alive()
    elif w == 1:
        mt, mp = MSG_KINDS[MSGK]
        conn.process_packet(mt, mp)  # any well-formed message
    else:
        if not armed:
            return True  # the pong timer can only fire when armed
        pong_handle.cancelled = True
        conn._async_pong_not_received()
    if track.reached():
        return False
    live = loop.live()
    if w == 0:
        # tick: ping iff no message arrived since the previous tick; (re)arm tick at now+K; pong deadline
        # armed at now+4.5K only if a ping was sent and none was armed (never re-armed by later pings)
        sent = [p for wr in helper.writes for p in wr]
        if pending and sent != [PING_REQ_PACKET]:
            return track.fail(f"tick with no message since the previous tick did not send exactly one PingRequest: {sent}")
        if not pending and sent:
            return track.fail("tick sent a ping although a message arrived during the preceding interval")
        if conn._send_pending_ping is not True:
            return track.fail("tick did not mark the new interval as idle-so-far")
        ticks = [h for h in live if h.cb == conn._async_send_keep_alive]
        if len(ticks) != 1 or ticks[0].when != now + k or conn._ping_timer is not ticks[0]:
            return track.fail("tick did not arm exactly one next tick at now + K")
        pongs = [h for h in live if h.cb == conn._async_pong_not_received]
        if armed:
            if pongs != [pong_handle] or conn._pong_timer is not pong_handle or pong_handle.when != deadline:
                return track.fail("an armed pong deadline was moved or duplicated by a tick")
        elif pending:
            if len(pongs) != 1 or pongs[0].when * 2 != (now * 2 + 9 * k) or conn._pong_timer is not pongs[0]:  # k already doubled
                return track.fail("first unanswered ping did not arm the pong deadline at now + 4.5*K")
        elif pongs or conn._pong_timer is not None:
            return track.fail("pong deadline armed although no ping was sent")
        if conn.connection_state is not ConnectionState.CONNECTED or stops:
            return track.fail("tick changed the connection state")
        return True
    if w == 1:
        mt = MSG_KINDS[MSGK][0]
        sent = [p[0] for wr in helper.writes for p in wr]
        if sent != ([REPLY_OF[mt]] if mt in REPLY_OF else []):
            return track.fail(f"device message {mt}: unexpected writes {sent}")
        if conn._send_pending_ping is not False:
            return track.fail("a device message did not cancel the pending ping")
        if conn._pong_timer is not None or (pong_handle is not None and not pong_handle.cancelled):
            return track.fail("a device message did not disarm the pong deadline")
        ticks = [h for h in live if h.cb == conn._async_send_keep_alive]
        if ticks != [tick_handle] or conn._ping_timer is not tick_handle:
            return track.fail("a device message touched the tick timer")
        if [h for h in live if h is not tick_handle]:
            return track.fail("a device message armed a timer")
        if conn.connection_state is not ConnectionState.CONNECTED or stops:
            return track.fail("a device message changed the connection state")
        return True
    # pong deadline expired: dead connection
    if not isinstance(conn._fatal_exception, PingFailedAPIError):
        return track.fail("pong deadline expiry did not report PingFailedAPIError")
    if conn.connection_state is not ConnectionState.CLOSED or not helper.closed:
        return track.fail("pong deadline expiry did not close the connection")
    if stops != [False]:
        return track.fail(f"pong deadline expiry: stop callback calls {stops}, expected [False] (unexpected stop)")
    if live:
        return track.fail("timers left armed after the ping failure")
    return True


# ------------------------------------------------------------------------------------------------
# H10c: end-to-end on the real connection: symbolic arrival times, compare pings / close with the
#        reference automaton
# ------------------------------------------------------------------------------------------------
WHICH = shard_int("WHICH", 0)
NARR = shard_int("NARR", 2)
KHALF = shard_int("KHALF", 2000)  # keepalive in half-units: K = 1000 units, grid = K/1000
MAXGAP = shard_int("MAXGAP", 7000)
G0LO = shard_int("G0LO", 0)
G0HI = shard_int("G0HI", MAXGAP)


def _reference(arrivals, kk):
    """independent automaton: ticks at multiples of kk; ties: timer before arrival."""
    pings = []
    close = None
    pong_deadline = None
    pending = True
    tick = kk
    j = 0
    n = len(arrivals)
    guard = 0
    first_silent_ping = None
    while close is None and guard < 400:
        guard += 1
        t = tick
        kind = 0
        if pong_deadline is not None and pong_deadline <= t:
            t = pong_deadline
            kind = 1
        if j < n and arrivals[j] < t:
            t = arrivals[j]
            kind = 2
        if kind == 2:
            pong_deadline = None
            pending = False
            j += 1
        elif kind == 1:
            close = t
        else:
            if pending:
                pings.append(tick)
                if pong_deadline is None:
                    pong_deadline = tick + 9 * (kk // 2)  # kk is even
            pending = True
            tick = tick + kk
    return pings, close


def h10c_run(g0: int, g1: int, g2: int, g3: int, g4: int) -> bool:
    """
    pre: G0LO < g0 <= G0HI and 0 < g1 <= MAXGAP and 0 < g2 <= MAXGAP and 0 < g3 <= MAXGAP and 0 < g4 <= MAXGAP
    post: _
    """
    track.entered()
    kk = KHALF
    loop = StubLoop(0)
    conn, helper, stops, ok = _conn(kk // 2, loop)
    if not ok:
        return track.fail("constructor: keep-alive interval != K or pong timeout != 4.5*K")
    conn._async_schedule_keep_alive(loop.time())
    arrivals = []
    t = 0
    for g in [g0, g1, g2, g3, g4][:NARR]:
        t = t + 2 * g
        arrivals.append(t)
    pings = []
    closed_at = None
    ai = 0
    steps = 0
    while closed_at is None and steps < 80:
        steps += 1
        h = loop.next_timer()
        nxt = arrivals[ai] if ai < len(arrivals) else None
        if nxt is not None and (h is None or nxt < h.when):
            loop.now = nxt
            mt, mp = MSG_KINDS[MSGK]
            nw0 = len(helper.writes)
            conn.process_packet(mt, mp)
            if [p[0] for wr in helper.writes[nw0:] for p in wr] != ([REPLY_OF[mt]] if mt in REPLY_OF else []):
                return track.fail(f"device message {mt}: unexpected writes")
            ai += 1
        else:
            if h is None:
                break
            loop.now = h.when
            h.cancelled = True
            nw = len(helper.writes)
            h.cb(*h.args)
            if len(helper.writes) > nw:
                if [p for wr in helper.writes[nw:] for p in wr] != [PING_REQ_PACKET]:
                    return track.fail("a keep-alive tick wrote something other than one PingRequest")
                pings.append(loop.now)
            if conn.connection_state is ConnectionState.CLOSED:
                closed_at = loop.now
    if track.reached():
        return False
    if closed_at is None:
        return track.fail("silent peer was never declared dead")
    exp_pings, exp_close = _reference(arrivals, kk)
    if pings != exp_pings:
        return track.fail(f"ping times differ from the reference automaton: {pings} vs {exp_pings}")
    if closed_at != exp_close:
        return track.fail(f"close time differs from the reference automaton: {closed_at} vs {exp_close}")
    if not isinstance(conn._fatal_exception, PingFailedAPIError) or stops != [False]:
        return track.fail("dead connection not reported as ping failure / unexpected stop")
    # the user-facing window: silent since the last delivered arrival t => detected in (t + 5.5K, t + 6.5K]
    if ai > 0:
        last = arrivals[ai - 1]
        if not (2 * last + 11 * kk < 2 * closed_at <= 2 * last + 13 * kk):
            return track.fail(f"silent peer detected at {closed_at}, outside (t+5.5K, t+6.5K] for t={last}")
    if loop.live():
        return track.fail("timers left armed after the close")
    return True


# ------------------------------------------------------------------------------------------------
# H10b: z3 queries on the reference automaton (model level; tied to the code by H10a / H10c)
# ------------------------------------------------------------------------------------------------
def smt_obligations(tier: str) -> list:
    import z3

    out = []
    K, t, phi = z3.Reals("K t phi")
    # (iii) after the last arrival at time t the next tick is phi in (0, K] away (timer-before-arrival at
    #       ties makes phi = K possible, phi = 0 impossible); that tick is silent-so-far only from the
    #       *following* tick on: tick1 = t + phi resets pending, tick2 = t + phi + K pings and arms the
    #       deadline, close = tick2 + 4.5 K.
    t0 = _time.time()
    s = z3.Solver()
    close = t + phi + K + 4.5 * K
    s.add(K > 0, t >= 0, phi > 0, phi <= K)
    s.add(z3.Not(z3.And(close > t + 5.5 * K, close <= t + 6.5 * K)))
    r = str(s.check())
    out.append({"name": "window-closed-form", "status": r if r in ("sat", "unsat") else "unknown", "seconds": round(_time.time() - t0, 3),
                "queries": 1, "what": "for every K > 0, t, phase phi in (0, K]: close time t+phi+K+4.5K lies in (t+5.5K, t+6.5K]",
                "sample": "K, t, phi real; negated window membership", "reproduced": False})
    # Bounded unrolling of the automaton over `depth` tick intervals. Interval i lies between tick i
    # and tick i+1 (ticks at K, 2K, ...; tick 0 = connect time). has[i]: some message arrives in
    # interval i; before[i]: one of them arrives before the instant (d+4.5)K of a deadline that falls
    # into this interval. dl = index d of the tick that armed the pong deadline, or -1.
    depth = 8 if tier == "quick" else 16
    t0 = _time.time()
    s = z3.Solver()
    has = [z3.Bool(f"has_{i}") for i in range(depth)]
    before = [z3.Bool(f"before_{i}") for i in range(depth)]
    ping = [z3.Bool(f"ping_{i}") for i in range(depth)]  # ping[i]: tick i+1 sends a ping
    dl = [z3.Int(f"dl_{i}") for i in range(depth + 1)]
    closed = [z3.Bool(f"closed_{i}") for i in range(depth + 1)]
    s.add(dl[0] == -1, z3.Not(closed[0]))
    for i in range(depth):
        fires = z3.And(dl[i] >= 1, dl[i] + 4 == i)  # deadline (d + 4.5)K lies inside interval d + 4
        saved = z3.And(has[i], before[i])
        close_now = z3.And(z3.Not(closed[i]), fires, z3.Not(saved))
        dl_msgs = z3.If(has[i], -1, dl[i])  # any message disarms the deadline
        s.add(closed[i + 1] == z3.Or(closed[i], close_now))
        s.add(ping[i] == z3.And(z3.Not(closed[i + 1]), z3.Not(has[i])))  # pending is True after every tick
        s.add(dl[i + 1] == z3.If(closed[i + 1], -1, z3.If(z3.And(ping[i], dl_msgs == -1), i + 1, dl_msgs)))
    viol = []
    for i in range(depth):
        cl = z3.And(closed[i + 1], z3.Not(closed[i]))  # declared dead during interval i
        if i < 5:
            viol.append(cl)  # the earliest ping is at tick 1, so nothing can be dead before 5.5K
            continue
        d = i - 4
        first = z3.BoolVal(True) if d == 1 else has[d - 2]  # ping at tick d is the first unanswered one
        ok = z3.And(ping[d - 1], first, *[z3.Not(has[j]) for j in range(d, i)], z3.Not(z3.And(has[i], before[i])))
        viol.append(z3.And(cl, z3.Not(ok)))
    for d in range(1, depth - 4):
        # converse: first unanswered ping at tick d followed by 4.5K of silence => dead in interval d+4
        first = z3.BoolVal(True) if d == 1 else has[d - 2]
        i = d + 4
        pre = z3.And(ping[d - 1], first, *[z3.Not(has[j]) for j in range(d, i)], z3.Not(z3.And(has[i], before[i])))
        viol.append(z3.And(pre, z3.Not(z3.And(closed[i + 1], z3.Not(closed[i])))))
    s.push()
    s.add(z3.Or(*viol))
    r = str(s.check())
    wit = None
    if r == "sat":
        m = s.model()
        wit = {"has": [bool(m.eval(h, model_completion=True)) for h in has], "before": [bool(m.eval(h, model_completion=True)) for h in before]}
    s.pop()
    out.append({"name": f"automaton-bmc-depth-{depth}", "status": r if r in ("sat", "unsat") else "unknown", "seconds": round(_time.time() - t0, 3),
                "queries": 1, "what": "reference automaton, every arrival pattern over the tick intervals: declared dead exactly 4.5K after the first ping that is followed by 4.5K of silence, never otherwise",
                "witness": wit, "reproduced": False, "sample": {"depth": depth}})
    t0 = _time.time()
    s.push()
    s.add(z3.And(*has), z3.Or(*closed))
    r2 = str(s.check())
    s.pop()
    out.append({"name": "live-peer-never-dropped", "status": r2 if r2 in ("sat", "unsat") else "unknown", "seconds": round(_time.time() - t0, 3),
                "queries": 1, "what": "reference automaton: if a message arrives in every keepalive interval the connection is never declared dead",
                "reproduced": False, "sample": {"depth": depth}})
    return out


def shards(tier: str) -> list:
    out = [{"fn": "h10a_step", "env": {"WHICH": w}, "cond_timeout": 300,
            "desc": f"one automaton step of the real {('tick', 'message', 'pong-expiry')[w]} callback from an arbitrary abstract state, K symbolic"} for w in (0, 2)]
    for mk in range(len(MSG_KINDS)):
        out.append({"fn": "h10a_step", "env": {"WHICH": 1, "MSGK": mk}, "cond_timeout": 300,
                    "desc": f"one automaton step of the real message callback for message type {MSG_KINDS[mk][0]} from an arbitrary abstract state"})
    out.append({"fn": "h10d_ctor", "env": {}, "cond_timeout": 60, "desc": "constructor: interval = K, pong timeout = 4.5*K for 12 representative K (float arithmetic: concrete values)"})
    if tier == "quick":
        for n in (1, 2, 3):
            out.append({"fn": "h10c_run", "env": {"NARR": n, "KHALF": 2000, "MAXGAP": 7000}, "cond_timeout": 600,
                        "desc": f"{n} arrival(s) at symbolic times (grid K/1000, gaps <= 7K), pings and close vs the reference automaton"})
        out.append({"fn": "h10c_run", "env": {"NARR": 2, "KHALF": 40, "MAXGAP": 140}, "cond_timeout": 300, "desc": "2 arrivals, K = 20 units"})
        for mk in (1, 2):
            out.append({"fn": "h10c_run", "env": {"NARR": 2, "KHALF": 2000, "MAXGAP": 7000, "MSGK": mk}, "cond_timeout": 600,
                        "desc": f"2 arrivals of message type {MSG_KINDS[mk][0]} (the device's own ping request / a state update)"})
    else:
        for mk in range(1, len(MSG_KINDS)):
            out.append({"fn": "h10c_run", "env": {"NARR": 3, "KHALF": 2000, "MAXGAP": 7000, "MSGK": mk}, "cond_timeout": 1200,
                        "desc": f"3 arrivals of message type {MSG_KINDS[mk][0]}"})
        for n in (1, 2, 3, 4):
            out.append({"fn": "h10c_run", "env": {"NARR": n, "KHALF": 2000, "MAXGAP": 7000}, "cond_timeout": 2400, "path_timeout": 120,
                        "desc": f"{n} arrival(s) at symbolic times (grid K/1000, gaps <= 7K)"})
        for lo in range(0, 7000, 500):
            out.append({"fn": "h10c_run", "env": {"NARR": 5, "KHALF": 2000, "MAXGAP": 7000, "G0LO": lo, "G0HI": lo + 500}, "cond_timeout": 3000, "path_timeout": 120,
                        "desc": f"5 arrivals, first gap in ({lo}, {lo + 500}]"})
        out.append({"fn": "h10c_run", "env": {"NARR": 3, "KHALF": 40, "MAXGAP": 140}, "cond_timeout": 900, "desc": "3 arrivals, K = 20 units"})
    return out


BOUNDS = {"quick": "step harness: every K = 2j, j in [1, 10^7] units, every instant, every abstract state; end-to-end: 1-3 arrivals with gaps in (0, 7K] on a K/1000 grid",
          "thorough": "end-to-end with up to 5 arrivals; BMC of the automaton to depth 16"}
OUTSIDE = ["IEEE rounding of K*4.5 and now+K (times are exact integers here; the float product K*4.5 is checked for 12 concrete K only: CrossHair's bit-precise float model makes it intractable symbolically)", "more arrivals than the bound in the end-to-end harness (the step harness covers histories of any length)",
           "ties (a message at exactly a timer instant) are resolved timer-first in harness and reference alike; the statement leaves them open"]
ASSUMPTIONS = ["StubLoop: time() set by the harness, call_at records; callbacks run at exactly their deadline (virtual time)",
               "H10b is a model-level result; it transfers to the code only through H10a (each callback = one automaton step) and H10c"]
EXPLANATION = "C10: step refinement of the keep-alive callbacks against the reference automaton, end-to-end runs with symbolic arrival times, z3 queries on the automaton."
