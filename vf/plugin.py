"""CrossHair extension used by every harness (part of the trusted base, see DESIGN.md 1.2).

(i)   exact linear-arithmetic encodings of & | ^ on non-negative ints (stock CrossHair 0.0.110
      realises -- i.e. enumerates -- the operands of these operators);
(ii)  FFI boundary patches: the `noise` library entry points run untraced on realised arguments;
(iii) solver counters (number of z3 check() calls and seconds spent in them).
"""
from __future__ import annotations

import operator as ops
import time
from numbers import Integral

import z3
from crosshair.core import realize
from crosshair.libimpl import builtinslib as bl
from crosshair.statespace import context_statespace
from crosshair.tracers import NoTracing
from crosshair.util import CrossHairValue

SOLVER = {"calls": 0, "seconds": 0.0}
_INSTALLED = False


def _runs(mask: int):
    """maximal runs [(lo, hi)) of set bits of a non-negative constant."""
    out = []
    i = 0
    while mask >> i:
        if (mask >> i) & 1:
            lo = i
            while (mask >> i) & 1:
                i += 1
            out.append((lo, i))
        else:
            i += 1
    return out


def _and_const(a, m: int):
    expr = z3.IntVal(0)
    for lo, hi in _runs(m):
        expr = expr + ((a.var / z3.IntVal(2**lo)) % z3.IntVal(2 ** (hi - lo))) * z3.IntVal(2**lo)
    return bl.SymbolicInt(z3.simplify(expr))


def _pow2_factor(e) -> int:
    """largest k such that the term is syntactically (a sum of) X * 2^k; 0 if unknown."""
    e = z3.simplify(e)
    if z3.is_int_value(e):
        v = e.as_long()
        if v == 0:
            return 64
        k = 0
        while v % 2 == 0:
            v //= 2
            k += 1
        return k
    if z3.is_mul(e):
        k = 0
        for ch in e.children():
            if z3.is_int_value(ch):
                v = abs(ch.as_long())
                while v > 0 and v % 2 == 0:
                    v //= 2
                    k += 1
        return k
    if z3.is_add(e):
        return min(_pow2_factor(ch) for ch in e.children())
    return 0


def _nonneg(space, x) -> bool:
    return space.smt_fork(x.var >= 0, probability_true=0.99)


def _bitop(op, a, b):
    with NoTracing():
        a_sym = isinstance(a, bl.SymbolicInt)
        b_sym = isinstance(b, bl.SymbolicInt)
        if not (a_sym or b_sym):
            return op(int(a), int(b))
        space = context_statespace()
        if a_sym and not b_sym:
            s, c = a, int(b)
        elif b_sym and not a_sym:
            s, c = b, int(a)
        else:
            s = c = None
        if s is not None:
            if c < 0 or not _nonneg(space, s):
                return op(realize(a), realize(b))
            if op is ops.and_:
                return _and_const(s, c) if c else 0
            if c == 0:
                return s
            anded = _and_const(s, c)
            if op is ops.or_:
                return bl.SymbolicInt(s.var + z3.IntVal(c) - anded.var)
            return bl.SymbolicInt(s.var + z3.IntVal(c) - 2 * anded.var)
        if not (_nonneg(space, a) and _nonneg(space, b)):
            return op(realize(a), realize(b))
        for x, y in ((a, b), (b, a)):
            k = _pow2_factor(y.var)
            if k and space.smt_fork(x.var < z3.IntVal(2**k), probability_true=0.99):
                # x < 2^k and y a multiple of 2^k: disjoint bits
                if op is ops.and_:
                    return 0
                return bl.SymbolicInt(x.var + y.var)
        return op(realize(a), realize(b))


def _install_bitops() -> None:
    def h(op, a: Integral, b: Integral):
        return _bitop(op, a, b)

    bl.setup_binop(h, {ops.or_, ops.xor, ops.and_})
    bl._BIN_OPS.clear()


def _install_counters() -> None:
    orig = z3.Solver.check

    def check(self, *a):
        t0 = time.perf_counter()
        try:
            return orig(self, *a)
        finally:
            SOLVER["calls"] += 1
            SOLVER["seconds"] += time.perf_counter() - t0

    z3.Solver.check = check


def install_noise_patches() -> None:
    from crosshair import register_patch
    from crosshair.core import deep_realize
    from noise.connection import NoiseConnection

    def _wrap(orig):
        def patched(self, *a, **k):
            with NoTracing():
                a2 = deep_realize(a)
                k2 = deep_realize(k)
                r = orig(self, *a2, **k2)
                return bytes(r) if isinstance(r, (bytes, bytearray)) else r

        return patched

    for name in ("write_message", "read_message", "start_handshake", "set_psks", "set_prologue"):
        orig = getattr(NoiseConnection, name)
        register_patch(orig, _wrap(orig))

    # `PACK_NONCE = partial(Struct("<LQ").pack, 0)` in _frame_helper/noise.py: a pre-compiled
    # Struct's bound `pack` is C and would realise (enumerate) a symbolic nonce counter.  A call of a
    # functools.partial whose function is `Struct(fmt).pack` is routed to the module-level
    # `struct.pack(fmt, ...)`, for which CrossHair has an exact symbolic model (int.to_bytes); the
    # format is read from the object the repository created, so the layout stays the repo's.
    # Every other partial behaves as functools.partial does.
    import functools
    import struct

    def _partial_call(self, *a, **k):
        f = self.func
        with NoTracing():
            owner = getattr(f, "__self__", None)
            is_pack = isinstance(owner, struct.Struct) and getattr(f, "__name__", "") == "pack"
            fmt = owner.format if is_pack else None
        if is_pack and not k and not self.keywords:
            return struct.pack(fmt, *self.args, *a)
        return f(*self.args, *a, **{**self.keywords, **k})

    register_patch(functools.partial.__call__, _partial_call)



def _install_format() -> None:
    """symbolic string formatting (f-strings in error messages must not realise their arguments)."""
    # f"...{byte}" in error messages: stock CrossHair realises a symbolic int in __format__, which
    # turns "for every marker byte" into a 255-deep enumeration chain.  With an empty format spec
    # format(n) == repr(n) for ints, and CrossHair's SymbolicInt.__repr__ is symbolic (decimal
    # digits as a LazyIntSymbolicStr), so the message stays symbolic.  Other specs: stock behaviour.
    _orig_format = bl.SymbolicInt.__format__

    import re as _re

    _HEX_SPEC = _re.compile(r"^(0?)([0-9]{0,2})x$")

    def _hex_format(n, zero: bool, width: int):
        """format(n, "[0][width]x") for a non-negative symbolic int, digit by digit (forks only on the
        number of digits); the digit character is an if-then-else term, not a fork."""
        cps = []
        cur = n
        while True:
            d = cur % 16
            with NoTracing():
                if isinstance(d, bl.SymbolicInt):
                    cp = bl.SymbolicInt(z3.If(d.var < 10, d.var + 48, d.var + 87))
                else:
                    cp = d + 48 if d < 10 else d + 87
            cps.append(cp)
            cur = cur // 16
            if cur == 0:
                break
        while len(cps) < width:
            cps.append(48 if zero else 32)
        cps.reverse()
        return bl.LazyIntSymbolicStr(cps)

    def _symbolic_int_format(self, fmt):
        """None when the spec is not handled symbolically."""
        with NoTracing():
            if type(fmt) is not str:
                return None
            plain = fmt == ""
            mm = None if plain else _HEX_SPEC.match(fmt)
        if plain:
            return self.__repr__()
        if mm is not None and self >= 0:
            return _hex_format(self, mm.group(1) == "0", int(mm.group(2) or "0"))
        return None

    def _int_format(self, fmt):
        r = _symbolic_int_format(self, fmt)
        if r is not None:
            return r
        return _orig_format(self, fmt)

    bl.SymbolicInt.__format__ = _int_format

    # the builtin format() (also what f-string interception calls) is patched by CrossHair with a
    # version that deep-realises its argument first; route symbolic ints with an empty spec as above
    from crosshair import core as _cc

    _stock_format = _cc._PATCH_REGISTRATIONS.get(format)

    def _format(obj, format_spec=""):
        with NoTracing():
            is_sym_int = isinstance(obj, bl.SymbolicInt)
            is_sym_str = isinstance(obj, bl.AnySymbolicStr)
            is_ch = isinstance(obj, CrossHairValue)
            plain_spec = type(format_spec) is str and format_spec == ""
        if is_sym_int:
            r = _symbolic_int_format(obj, format_spec)
            if r is not None:
                return r
        if is_sym_str and plain_spec:
            return obj  # format(s, "") is s
        if not is_ch and plain_spec:
            # an ordinary object that may hold symbolic fields (dataclass, exception): format(o, "") is
            # str(o) unless the type overrides __format__; nothing is realised here
            tf = type(obj).__format__
            if tf is object.__format__:
                return str(obj)
        if _stock_format is not None:
            return _stock_format(obj, format_spec)
        return format(obj, format_spec)

    _cc._PATCH_REGISTRATIONS[format] = _format

    # str(exc): BaseException.__str__ is a C slot that needs a real str and therefore realises a
    # symbolic message (e.g. `exc_info=not str(err)` in report_fatal_error with a symbolic device
    # name in the text).  For exception types that do not override __str__, str(exc) with exactly one
    # argument is str(args[0]): return the symbolic string itself.
    _stock_str = _cc._PATCH_REGISTRATIONS.get(str)

    def _str(*a, **kw):
        if len(a) == 1 and not kw:
            obj = a[0]
            with NoTracing():
                plain_exc = isinstance(obj, BaseException) and type(obj).__str__ is BaseException.__str__
                args = obj.args if plain_exc else ()
                one_sym = plain_exc and len(args) == 1 and isinstance(args[0], bl.AnySymbolicStr)
            if one_sym:
                return args[0]
        if len(a) == 1 and not kw and _stock_str is not None:
            return _stock_str(*a)
        with NoTracing():  # str() / str(b, encoding): the real constructor (a traced call would re-enter this patch)
            return str(*a, **kw)

    _cc._PATCH_REGISTRATIONS[str] = _str


def _disable_opportunistic_shortcircuit() -> None:
    """CrossHair may skip a call to a contract-bearing function whose arguments are all symbolic
    (e.g. its own `_repr`) and continue with a fresh symbolic return value, choosing at random via a
    ParallelNode per call.  It is a search heuristic only; in harnesses that format objects it
    multiplied identical paths (x7 measured).  Always call into the function instead."""
    import crosshair.core as cc

    orig = cc.consider_shortcircuit

    def consider(fn, sig, bound, subconditions, allow_interpretation):
        if allow_interpretation:
            return None
        return orig(fn, sig, bound, subconditions, allow_interpretation)

    cc.consider_shortcircuit = consider


def install() -> None:
    global _INSTALLED
    if _INSTALLED:
        return
    _INSTALLED = True
    _disable_opportunistic_shortcircuit()
    _install_bitops()
    _install_counters()
    _install_format()
