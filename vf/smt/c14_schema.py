"""E2 encoders for C14: enum number<->name maps and field-name sets as finite z3 relations.

Everything is rebuilt on every call from the current working tree: the model classes
(`aioesphomeapi.model`), the pairing tables (`model_conversions`), the compiled descriptors
(`api_pb2`), the text of `api.proto` and the source of `client.py` (for the enums used as command
arguments).  A query is the negated property; `unsat` = holds.
"""
from __future__ import annotations

import ast
import dataclasses
import inspect
import os
import re
import time
import typing

import z3

# (wire message name, model class name) for model classes that are built with from_pb outside the two
# tables of model_conversions.py (call sites in client.py / client_callbacks.py / model.py)
EXTRA_PAIRS = [
    ("DeviceInfoResponse", "DeviceInfo"),
    ("ListEntitiesServicesResponse", "UserService"),
    ("ListEntitiesServicesArgument", "UserServiceArg"),
    ("HomeassistantServiceResponse", "HomeassistantServiceCall"),
    ("MediaPlayerSupportedFormat", "MediaPlayerSupportedFormat"),
    ("BluetoothLEAdvertisementResponse", "BluetoothLEAdvertisement"),
    ("BluetoothDeviceConnectionResponse", "BluetoothDeviceConnection"),
    ("BluetoothDevicePairingResponse", "BluetoothDevicePairing"),
    ("BluetoothDeviceUnpairingResponse", "BluetoothDeviceUnpairing"),
    ("BluetoothDeviceClearCacheResponse", "BluetoothDeviceClearCache"),
    ("BluetoothGATTReadResponse", "BluetoothGATTRead"),
    ("BluetoothGATTNotifyDataResponse", "BluetoothGATTRead"),
    ("BluetoothGATTDescriptor", "BluetoothGATTDescriptor"),
    ("BluetoothGATTCharacteristic", "BluetoothGATTCharacteristic"),
    ("BluetoothGATTService", "BluetoothGATTService"),
    ("BluetoothGATTGetServicesResponse", "BluetoothGATTServices"),
    ("BluetoothConnectionsFreeResponse", "BluetoothConnectionsFree"),
    ("BluetoothGATTErrorResponse", "BluetoothGATTError"),
    ("VoiceAssistantAudioSettings", "VoiceAssistantAudioSettings"),
    ("VoiceAssistantRequest", "VoiceAssistantCommand"),
    ("VoiceAssistantAudio", "VoiceAssistantAudioData"),
    ("VoiceAssistantAnnounceFinished", "VoiceAssistantAnnounceFinished"),
    ("VoiceAssistantWakeWord", "VoiceAssistantWakeWord"),
    ("VoiceAssistantConfigurationResponse", "VoiceAssistantConfigurationResponse"),
]
# model enum -> wire enum where the names differ and no converter field / command argument ties them
# wire enum -> model FLAG enum (enum.IntFlag, no converter): the wire enum declares the bit values of a uint32 flags field
FLAG_ENUMS = {"VoiceAssistantSubscribeFlag": "VoiceAssistantSubscriptionFlag"}
RENAMED_ENUMS = {"VoiceAssistantEventType": "VoiceAssistantEvent", "VoiceAssistantTimerEventType": "VoiceAssistantTimerEvent"}


def _mods():
    from aioesphomeapi import api_pb2 as PB
    from aioesphomeapi import client as CL
    from aioesphomeapi import model as M
    from aioesphomeapi import model_conversions as MC

    return PB, M, MC, CL


def message_pairs() -> list:
    """[(pb class, model class, origin)] -- regenerated from the tables of the current tree."""
    PB, M, MC, _ = _mods()
    out = []
    for pb, md in MC.SUBSCRIBE_STATES_RESPONSE_TYPES.items():
        out.append((pb, md, "SUBSCRIBE_STATES_RESPONSE_TYPES"))
    for pb, md in MC.LIST_ENTITIES_SERVICES_RESPONSE_TYPES.items():
        if md is not None:
            out.append((pb, md, "LIST_ENTITIES_SERVICES_RESPONSE_TYPES"))
    for p, m in EXTRA_PAIRS:
        out.append((getattr(PB, p), getattr(M, m), "from_pb call site"))
    return out


def from_pb_call_sites() -> set:
    """names X of every `X.from_pb(` in the package source (to see that no built model is unpaired)."""
    PB, M, MC, CL = _mods()
    pkg = os.path.dirname(M.__file__)
    names = set()
    for fn in sorted(os.listdir(pkg)):
        if not fn.endswith(".py") or fn.endswith("_pb2.py"):
            continue
        with open(os.path.join(pkg, fn)) as f:
            tree = ast.parse(f.read())
        for node in ast.walk(tree):
            if isinstance(node, ast.Call) and isinstance(node.func, ast.Attribute) and node.func.attr == "from_pb":
                v = node.func.value
                if isinstance(v, ast.Name):
                    names.add((fn, v.id))
    return names


def wire_enums_from_text() -> dict:
    PB, M, MC, CL = _mods()
    with open(os.path.join(os.path.dirname(M.__file__), "api.proto")) as f:
        txt = re.sub(r"//[^\n]*", "", f.read())
    enums = {}
    for m in re.finditer(r"\benum\s+(\w+)\s*\{([^}]*)\}", txt):
        enums[m.group(1)] = [(a, int(b)) for a, b in re.findall(r"(\w+)\s*=\s*(-?\d+)\s*(?:\[[^\]]*\])?\s*;", m.group(2))]
    return enums


def enum_pairs() -> tuple:
    """([(model enum, wire EnumDescriptor, origin)], [unpaired model enum names])"""
    PB, M, MC, CL = _mods()
    pairs = {}

    def add(me, wd, origin):
        pairs.setdefault((me, wd.name), (me, wd, origin))

    # 1. converter fields <-> descriptor enum_type
    for pb, md, _o in message_pairs():
        if not dataclasses.is_dataclass(md):
            continue
        for f in dataclasses.fields(md):
            conv = f.metadata.get("converter")
            owner = getattr(conv, "__self__", None)
            fd = pb.DESCRIPTOR.fields_by_name.get(f.name)
            if isinstance(owner, type) and issubclass(owner, M.APIIntEnum) and fd is not None and fd.enum_type is not None:
                add(owner, fd.enum_type, f"{md.__name__}.{f.name} converter <-> {pb.__name__}.{f.name}")
    # 2. enums used as command arguments: APIClient method parameter annotated with a model enum <-> the
    #    enum-typed field of the request class the method constructs
    src = inspect.getsource(CL.APIClient)
    tree = ast.parse(src)
    cls = tree.body[0]
    for fn in cls.body:
        if not isinstance(fn, (ast.FunctionDef, ast.AsyncFunctionDef)):
            continue
        try:
            hints = typing.get_type_hints(getattr(CL.APIClient, fn.name), vars(CL))
        except Exception:  # noqa: BLE001
            continue
        eparams = {}
        for p, h in hints.items():
            for t in (typing.get_args(h) or (h,)):
                if isinstance(t, type) and issubclass(t, M.APIIntEnum):
                    eparams[p] = t
        if not eparams:
            continue
        reqs = []
        for node in ast.walk(fn):
            if isinstance(node, ast.Call) and isinstance(node.func, ast.Name):
                c = getattr(PB, node.func.id, None)
                if c is not None and hasattr(c, "DESCRIPTOR") and c not in reqs:
                    reqs.append(c)
        for p, me in eparams.items():
            for rq in reqs:
                efields = [fd for fd in rq.DESCRIPTOR.fields if fd.enum_type is not None]
                named = [fd for fd in efields if fd.name == p]
                for fd in named or (efields if len(efields) == 1 else []):
                    add(me, fd.enum_type, f"APIClient.{fn.name}({p}) <-> {rq.__name__}.{fd.name}")
    # 3. remaining model enums: wire enum of the same (or listed renamed) name
    paired = {me for (me, _n) in pairs}
    unpaired = []
    for name, c in vars(M).items():
        if isinstance(c, type) and issubclass(c, M.APIIntEnum) and c is not M.APIIntEnum and c not in paired:
            wn = RENAMED_ENUMS.get(name, name)
            wd = PB.DESCRIPTOR.enum_types_by_name.get(wn)
            if wd is None:
                unpaired.append(name)
            else:
                add(c, wd, "same name" if wn == name else "listed rename")
    return list(pairs.values()), unpaired


def flag_enum_pairs() -> tuple:
    """([(model IntFlag class, wire EnumDescriptor, origin)], [wire enums that no model enum is paired with])"""
    import enum

    PB, M, MC, CL = _mods()
    pairs, _unp = enum_pairs()
    paired_wire = {wd.name for _me, wd, _o in pairs}
    out, unpaired_wire = [], []
    for wn, wd in PB.DESCRIPTOR.enum_types_by_name.items():
        if wn in paired_wire:
            continue
        mc = getattr(M, FLAG_ENUMS.get(wn, wn), None)
        if isinstance(mc, type) and issubclass(mc, enum.Enum):
            out.append((mc, wd, "flag enum: the wire enum declares the bits of a uint32 flags field (listed pairing)"))
        else:
            unpaired_wire.append(wn)
    return out, unpaired_wire


# ---- z3 encodings ---------------------------------------------------------------------------


class _Intern:
    def __init__(self):
        self.ids = {}
        self.names = []

    def __call__(self, s: str) -> int:
        if s not in self.ids:
            self.ids[s] = len(self.names)
            self.names.append(s)
        return self.ids[s]


def _rel2(pairs, n, s):
    """z3 formula: (n, s) is one of the finite list of (number, name id) pairs."""
    return z3.Or([z3.And(n == a, s == b) for a, b in pairs]) if pairs else z3.BoolVal(False)


def _rel1(ids, s):
    return z3.Or([s == a for a in ids]) if ids else z3.BoolVal(False)


def _check(solver):
    t0 = time.time()
    r = solver.check()
    return str(r), round(time.time() - t0, 3)


def prefixes_of(names) -> list:
    """candidate prefixes: '' and every '_'-terminated prefix shared by all wire names."""
    out = [""]
    if names:
        first = names[0]
        for i, ch in enumerate(first):
            if ch == "_":
                p = first[: i + 1]
                if all(x.startswith(p) and len(x) > len(p) for x in names):
                    out.append(p)
    return out


def enum_obligation(me, wd, origin, known_points=(), flag=False) -> dict:
    """wire numbers/names == model numbers/names (modulo ONE common wire-name prefix), no aliases.

    `known_points`: mismatch points attributed to a listed known finding -- ("alias", number, name, name)
    or ("name", number, name) -- are excluded from the query so that any OTHER mismatch still surfaces."""
    kp_alias = [(p[1], frozenset(p[2:4])) for p in known_points if p[0] == "alias"]
    kp_name = [(p[1], p[2]) for p in known_points if p[0] == "name"]
    I = _Intern()
    prefs = prefixes_of([v.name for v in wd.values])
    # a flag enum has no member for "no flag": the wire's zero value is not expected on the model side
    wire = [(v.name, v.number) for v in wd.values if not (flag and v.number == 0)]
    model = [(name, int(member.value)) for name, member in me.__members__.items()]  # includes aliases
    s = z3.Solver()
    queries = 0
    n, a, b = z3.Ints("n a b")
    # (1) alias: one number under two names, on either side
    res = {"name": f"enum/{me.__name__}~{wd.name}", "what": f"{origin}: numbers and names agree, no alias", "queries": 0, "seconds": 0.0}
    Wm = [(num, I(nm)) for nm, num in wire]
    Mm = [(num, I(nm)) for nm, num in model]
    s.push()
    s.add(z3.Or(z3.And(_rel2(Mm, n, a), _rel2(Mm, n, b), a != b), z3.And(_rel2(Wm, n, a), _rel2(Wm, n, b), a != b)))
    for num, nms in kp_alias:
        x, y = sorted(nms)
        s.add(z3.Not(z3.And(n == num, z3.Or(z3.And(a == I(x), b == I(y)), z3.And(a == I(y), b == I(x))))))
    st, sec = _check(s)
    queries += 1
    res["seconds"] += sec
    if st == "sat":
        m = s.model()
        res.update(status="sat", witness={"kind": "alias", "number": m[n].as_long(), "names": [I.names[m[a].as_long()], I.names[m[b].as_long()]]})
        res["queries"] = queries
        return res
    if st != "unsat":
        res.update(status=st, queries=queries)
        return res
    s.pop()
    # (2) for EVERY candidate prefix there is a (number, name) on one side only  <=>  no prefix makes the maps equal
    wit = []
    for k, p in enumerate(prefs):
        nk, sk = z3.Int(f"n{k}"), z3.Int(f"s{k}")
        Wp = [(num, I(nm[len(p):])) for nm, num in wire]
        s.add(z3.Xor(_rel2(Wp, nk, sk), _rel2(Mm, nk, sk)))
        for num, nm in kp_name:
            s.add(z3.Not(z3.And(nk == num, sk == I(nm))))
        wit.append((p, nk, sk))
    st, sec = _check(s)
    queries += 1
    res["seconds"] = round(res["seconds"] + sec, 3)
    res["queries"] = queries
    if st == "sat":
        m = s.model()
        p, nk, sk = wit[-1]  # report against the longest common prefix
        res.update(status="sat", witness={"kind": "number/name on one side only", "prefix": p, "number": m[nk].as_long(), "name": I.names[m[sk].as_long()]})
    else:
        res["status"] = st
    res["sample"] = {"wire": wire[:4], "model": model[:4], "prefixes": prefs}
    if known_points:
        res["what"] += f" -- EXCLUDING the points of the listed known finding: {[list(p) for p in known_points]}"
    return res


def fields_obligation(pb, md, origin) -> dict:
    I = _Intern()
    wf = [I(f.name) for f in pb.DESCRIPTOR.fields]
    mf = [I(f.name) for f in dataclasses.fields(md)]
    s = z3.Solver()
    x = z3.Int("x")
    s.add(z3.Xor(_rel1(wf, x), _rel1(mf, x)))
    st, sec = _check(s)
    res = {"name": f"fields/{pb.__name__}~{md.__name__}", "what": f"{origin}: field-name sets agree", "queries": 1, "seconds": sec, "status": st}
    if st == "sat":
        nm = I.names[s.model()[x].as_long()]
        res["witness"] = {"field": nm, "in_wire": nm in [f.name for f in pb.DESCRIPTOR.fields], "in_model": nm in [f.name for f in dataclasses.fields(md)]}
    res["sample"] = {"fields": [f.name for f in pb.DESCRIPTOR.fields][:6]}
    return res


def text_vs_descriptor_obligation() -> dict:
    """every enum of api.proto's text == the compiled descriptor's enum (names and numbers)."""
    PB, M, MC, CL = _mods()
    I = _Intern()
    txt = wire_enums_from_text()
    T = [(I(en), I(nm), num) for en, vals in txt.items() for nm, num in vals]
    D = [(I(en), I(v.name), v.number) for en, ed in PB.DESCRIPTOR.enum_types_by_name.items() for v in ed.values]
    e, s_, n = z3.Ints("e s n")
    inT = z3.Or([z3.And(e == a, s_ == b, n == c) for a, b, c in T])
    inD = z3.Or([z3.And(e == a, s_ == b, n == c) for a, b, c in D])
    s = z3.Solver()
    s.add(z3.Xor(inT, inD))
    st, sec = _check(s)
    res = {"name": "enums/api.proto-text~descriptor", "what": "enum values declared in api.proto text == compiled descriptors", "queries": 1, "seconds": sec, "status": st}
    if st == "sat":
        m = s.model()
        res["witness"] = {"enum": I.names[m[e].as_long()], "name": I.names[m[s_].as_long()], "number": m[n].as_long()}
    res["sample"] = {"enums": len(txt), "values": len(T)}
    return res
