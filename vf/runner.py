"""Shard orchestration, native replay, verdicts and evidence for one property.

usage: python -m vf.runner <PROPERTY> <quick|thorough>
       python -m vf.runner --replay <path>

Exit codes: 0 property held on everything explored (possibly with KNOWN-FINDING lines);
            1 + "VIOLATION property=<id> replay=<path>" for a natively reproduced counterexample;
            2 harness error (non-reproducing counterexample, crashed worker, plugin self-test failure).
"""
from __future__ import annotations

import hashlib
import importlib
import json
import os
import random
import subprocess
import sys
import time
from concurrent.futures import ThreadPoolExecutor

ROOT = os.path.dirname(os.path.dirname(os.path.abspath(__file__)))
PY = os.path.join(ROOT, ".venv", "bin", "python")
NPROC = int(os.environ.get("VF_NPROC", "16"))
REPO = os.environ.get("VF_REPO", "/repo")  # a scratch copy when trying a seeded mutation
OUT = os.environ.get("VF_OUT", ROOT)  # where evidence/ and replays/ are written
KEEP = ("VF_NPROC", "VF_NO_KNOWN", "VF_REPO", "VF_OUT", "VF_ONLY")


def _env(extra: dict) -> dict:
    e = dict(os.environ)
    e["PYTHONPATH"] = REPO + os.pathsep + ROOT
    e["PYTHONHASHSEED"] = "0"
    e["PYTHONDONTWRITEBYTECODE"] = "1"
    for k in list(e):
        if k.startswith("VF_") and k not in KEEP:
            del e[k]
    for k, v in extra.items():
        e["VF_" + k] = str(v)
    return e


def run_worker(shard: dict) -> dict:
    t0 = time.time()
    cond = shard.get("cond_timeout", 120)
    path = shard.get("path_timeout", 30)
    wall = shard.get("wall_timeout", cond * 2 + 90)
    cmd = [PY, "-m", "vf.worker", shard["module"], shard["fn"], str(cond), str(path)]
    try:
        p = subprocess.run(cmd, cwd=ROOT, env=_env(shard.get("env", {})), capture_output=True, text=True, timeout=wall)
    except subprocess.TimeoutExpired:
        return {"status": "inconclusive", "detail": f"wall-clock kill after {wall}s", "seconds": round(time.time() - t0, 1), "paths": 0, "reached": 0}
    for line in reversed(p.stdout.splitlines()):
        if line.startswith("@@RESULT@@"):
            r = json.loads(line[len("@@RESULT@@"):])
            return r
    return {"status": "error", "detail": "worker produced no result: " + (p.stderr or p.stdout)[-1500:], "seconds": round(time.time() - t0, 1), "paths": 0, "reached": 0}


def run_replay(module: str, call: str, env: dict, profile: bool = False, no_known: bool = False) -> dict:
    e = _env(env)
    if no_known:
        e["VF_NO_KNOWN"] = "1"
    cmd = [PY, "-m", "vf.replay", module, call] + (["--profile"] if profile else [])
    try:
        p = subprocess.run(cmd, cwd=ROOT, env=e, capture_output=True, text=True, timeout=300)
    except subprocess.TimeoutExpired:
        return {"result": "timeout", "explain": [], "functions": []}
    for line in reversed(p.stdout.splitlines()):
        if line.startswith("@@REPLAY@@"):
            return json.loads(line[len("@@REPLAY@@"):])
    return {"result": "error", "explain": [(p.stderr or p.stdout)[-1500:]], "functions": []}


def load_known(prop: str) -> list:
    p = os.path.join(ROOT, "known_findings.json")
    if not os.path.exists(p):
        return []
    with open(p) as f:
        return [e for e in json.load(f).get("findings", []) if e["property"] == prop and e.get("status", "open") == "open"]


def do_replay(path: str) -> int:
    with open(path) as f:
        r = json.load(f)
    res = run_replay(r["module"], r["call"], r.get("env", {}))
    print(json.dumps(res, indent=1))
    if res["result"] is True:
        print("replay: oracle holds (no violation on this tree)")
        return 0
    print(f"VIOLATION property={r['property']} replay={path}")
    return 1


def main() -> int:
    if sys.argv[1] == "--replay":
        return do_replay(sys.argv[2])
    prop, tier = sys.argv[1], (sys.argv[2] if len(sys.argv) > 2 else os.environ.get("VERIF_TIER", "quick"))
    seed = int(os.environ.get("VERIF_SEED", "0"))
    t0 = time.time()
    mod_name = "vf.harness." + prop.lower()
    sys.path.insert(0, REPO)
    import logging

    logging.disable(logging.CRITICAL)
    mod = importlib.import_module(mod_name)
    shards = mod.shards(tier)
    only = os.environ.get("VF_ONLY")
    if only:
        shards = [s for s in shards if only in s["fn"]]
    for s in shards:
        s.setdefault("module", mod_name)
    random.Random(seed).shuffle(shards)  # the seed only permutes shard order

    harness_error = False
    violations = []
    known_lines = []

    # 1. known findings: replay each listed witness natively (never written at run time)
    known = load_known(prop)
    for k in known:
        res = run_replay(k["module"], k["call"], k.get("env", {}), no_known=True)
        still = res["result"] is not True and any(k["signature"] in x for x in res.get("explain", []))
        if still:
            line = f"KNOWN-FINDING: property={prop} {k['what']}"
            known_lines.append(line)
            print(line, flush=True)
        else:
            print(f"note: listed finding {k['signature']} no longer reproduces ({res.get('result')})", flush=True)

    # 2. direct SMT obligations (engine E2), if the property has any
    smt = []
    if hasattr(mod, "smt_obligations"):
        for ob in mod.smt_obligations(tier):
            smt.append(ob)
            st = ob["status"]
            print(f"smt {ob['name']}: {st} ({ob.get('seconds', 0)}s)", flush=True)
            if st == "sat":
                # witness must be confirmed against the real code by the obligation itself
                if ob.get("reproduced"):
                    violations.append({"kind": "smt", "name": ob["name"], "witness": ob.get("witness"), "module": mod_name,
                                       "call": ob.get("replay_call", "True"), "env": {}})
                else:
                    harness_error = True
                    print(f"HARNESS-ERROR smt witness for {ob['name']} does not reproduce: {ob.get('witness')}", flush=True)
            elif st != "unsat":
                print(f"INCONCLUSIVE smt={ob['name']} {st}", flush=True)

    # 3. CrossHair shards (engine E1)
    results = []
    with ThreadPoolExecutor(max_workers=NPROC) as ex:
        for s, r in zip(shards, ex.map(run_worker, shards)):
            r["shard"] = {"fn": s["fn"], "env": s.get("env", {}), "desc": s.get("desc", ""), "module": s["module"]}
            results.append(r)
            tag = f"{s['fn']} {s.get('env', {})}"
            if r["status"] == "confirmed" and r.get("twin") == "refuted":
                print(f"shard {tag}: confirmed paths={r['paths']} reached={r['reached']} {r.get('seconds')}s", flush=True)
            elif r["status"] == "confirmed" and r.get("twin") == "empty":
                r["status"] = "empty"
                print(f"shard {tag}: empty slice (every path ends at an event that is not enabled) paths={r['paths']}", flush=True)
            elif r["status"] == "confirmed":
                r["status"] = "inconclusive"
                r["detail"] = f"vacuity guard: twin={r.get('twin')}"
                print(f"INCONCLUSIVE shard={tag} {r['detail']}", flush=True)
            elif r["status"] == "counterexample":
                print(f"shard {tag}: counterexample {r.get('call')} :: {r.get('detail', '')[:300]}", flush=True)
            elif r["status"] == "error":
                harness_error = True
                print(f"HARNESS-ERROR shard={tag} {r.get('detail', '')[:600]}", flush=True)
            else:
                print(f"INCONCLUSIVE shard={tag} {r.get('detail', '')[:200]} paths={r.get('paths')}", flush=True)

    # 4. replay every counterexample natively before reporting
    os.makedirs(os.path.join(OUT, "replays"), exist_ok=True)
    for r in results:
        if r["status"] != "counterexample":
            continue
        env = r["shard"]["env"]
        if not r.get("call"):
            if "NotDeterministic" in r.get("detail", ""):
                r["status"] = "inconclusive"
                print(f"INCONCLUSIVE shard={r['shard']['fn']} {env} nondeterministic harness", flush=True)
                harness_error = True
                continue
            harness_error = True
            print(f"HARNESS-ERROR cannot parse counterexample: {r.get('detail', '')[:500]}", flush=True)
            continue
        call = r["call"]
        smod = r["shard"].get("module", mod_name)
        res = run_replay(smod, call, env)
        r["replay"] = res
        if res["result"] is True:
            harness_error = True
            r["status"] = "inconclusive"
            print(f"HARNESS-ERROR counterexample does not reproduce natively: {call} env={env}", flush=True)
            continue
        violations.append({"kind": "crosshair", "module": smod, "fn": r["shard"]["fn"], "call": call, "env": env,
                           "explain": res.get("explain"), "exception": res.get("exception"), "traceback": res.get("traceback")})

    viol_paths = []
    for v in violations:
        h = hashlib.sha1(json.dumps([v.get("call"), v.get("env"), v.get("name")], sort_keys=True).encode()).hexdigest()[:10]
        path = os.path.join("replays", f"{prop}-{h}.json")
        v["property"] = prop
        with open(os.path.join(OUT, path), "w") as f:
            json.dump(v, f, indent=1)
        viol_paths.append(path)
        print(f"VIOLATION property={prop} replay={path}", flush=True)
        for x in (v.get("explain") or [])[:5]:
            print("   why:", x, flush=True)
        if v.get("exception"):
            print("   exception:", v["exception"], flush=True)

    # 5. evidence
    samples = []
    functions = set()
    seen_fn = {}
    for r in results:
        tc = r.get("twin_call")
        fnname = r["shard"]["fn"]
        if tc and seen_fn.get(fnname, 0) < 2:
            seen_fn[fnname] = seen_fn.get(fnname, 0) + 1
            res = run_replay(r["shard"].get("module", mod_name), tc, r["shard"]["env"], profile=True)
            functions.update(res.get("functions", []))
            samples.append({"harness": fnname, "shard": r["shard"]["env"], "call": tc[:600], "native_result": res.get("result")})
            if res.get("result") is not True:
                # a sample that reaches the oracle must satisfy it natively on an unchanged tree
                print(f"note: native sample of {fnname} returned {res.get('result')}: {res.get('explain')}", flush=True)
    for ob in smt:
        if ob.get("sample") is not None and len(samples) < 12:
            samples.append({"smt": ob["name"], "sample": ob["sample"]})
    confirmed = [r for r in results if r["status"] == "confirmed"]
    inconcl = [r for r in results if r["status"] == "inconclusive"]
    n_paths = sum(int(r.get("paths") or 0) for r in results)
    n_reached = sum(int(r.get("reached") or 0) for r in confirmed)
    smt_unsat = [o for o in smt if o["status"] == "unsat"]
    evidence = {
        "property_id": prop,
        "tier": tier,
        "seed": seed,
        "level": "other",
        "coverage": {
            "explanation": (
                "Bounded symbolic execution of the real aioesphomeapi code (CrossHair 0.0.110 executing /repo's "
                "current bytecode on symbolic inputs, z3 deciding every branch) plus direct z3 queries where listed. "
                "A shard counts as confirmed only when CrossHair reports 'Confirmed over all paths' (every path of the "
                "harness for every value allowed by its preconditions satisfies the oracle) AND its reachability twin "
                "is refuted (the oracle point is reachable). Inconclusive shards are listed and never counted as passes. "
                + getattr(mod, "EXPLANATION", "")
            ),
            "evaluations": n_paths + len(smt),
            "distinct_nontrivial": n_reached + len(smt_unsat),
            "rule": "evaluations = symbolic paths explored by CrossHair (each decided by z3) + SMT obligations; "
                    "distinct_nontrivial = paths of confirmed shards that reached the oracle point with the harness's "
                    "'interesting' predicate true (distinct by construction: different solver decision sequences) + unsat obligations",
            "samples": samples[:12] or [{"note": "no sample"}],
            "exhaustive": (len(inconcl) == 0 and not harness_error and all(o["status"] in ("unsat", "sat") for o in smt)),
            "functions_encoded": sorted(functions) + list(getattr(mod, "ALSO_ENCODED", [])),
            "bounds": getattr(mod, "BOUNDS", {}).get(tier, getattr(mod, "BOUNDS", {})),
            "outside_bounds": getattr(mod, "OUTSIDE", []),
            "shards_total": len(results),
            "shards_confirmed": len(confirmed),
            "shards_inconclusive": len(inconcl),
            "shards_empty": len([r for r in results if r["status"] == "empty"]),
            "inconclusive_shards": [{"shard": r["shard"], "detail": r.get("detail", "")[:200]} for r in inconcl][:40],
            "queries_discharged": sum(int(r.get("solver_calls") or 0) for r in results) + sum(int(o.get("queries", 1)) for o in smt),
            "solver_seconds": round(sum(float(r.get("solver_seconds") or 0) for r in results) + sum(float(o.get("seconds", 0)) for o in smt), 2),
            "smt_obligations": [{k: o[k] for k in o if k in ("name", "status", "seconds", "queries", "what")} for o in smt],
            "per_shard": [{"fn": r["shard"]["fn"], "env": r["shard"]["env"], "status": r["status"], "paths": r.get("paths"),
                           "reached": r.get("reached"), "known_hits": r.get("known_hits"), "twin": r.get("twin"),
                           "seconds": r.get("seconds")} for r in results],
            "known_findings_reported": known_lines,
            "engine": "crosshair-tool 0.0.110 + z3-solver (wheel) ; plugin vf/plugin.py",
        },
        "assumptions": list(getattr(mod, "ASSUMPTIONS", [])),
        "wall_s": round(time.time() - t0, 1),
        "violations": len(violations),
    }
    os.makedirs(os.path.join(OUT, "evidence"), exist_ok=True)
    with open(os.path.join(OUT, "evidence", f"{prop}.json"), "w") as f:
        json.dump(evidence, f, indent=1)
    print(f"summary {prop} {tier}: shards={len(results)} confirmed={len(confirmed)} inconclusive={len(inconcl)} "
          f"paths={n_paths} reached={n_reached} smt={len(smt)} violations={len(violations)} wall={evidence['wall_s']}s", flush=True)
    if violations:
        return 1
    if harness_error:
        return 2
    return 0


if __name__ == "__main__":
    sys.exit(main())
