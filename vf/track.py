"""Per-process counters and oracle helpers shared by all harnesses.

Counters are plain Python ints touched under NoTracing, so they never influence a path.
`reached()` marks the point where the oracle is evaluated with the interesting predicate true
(this is what `distinct_nontrivial` counts and what the reachability twin turns into a failure).
"""
from __future__ import annotations

import json
import os

try:
    from crosshair.tracers import NoTracing
except Exception:  # native replay without crosshair on the path

    class NoTracing:  # type: ignore
        def __enter__(self):
            return self

        def __exit__(self, *a):
            return False


COUNTS = {"entered": 0, "reached": 0, "known_hits": 0, "pruned": 0}
EXPLAIN: list = []
TWIN = False  # set by the worker for the reachability-twin run
_KNOWN = None


def known_signatures() -> set:
    global _KNOWN
    if _KNOWN is None:
        p = os.path.join(os.path.dirname(os.path.dirname(os.path.abspath(__file__))), "known_findings.json")
        sigs = set()
        try:
            with open(p) as f:
                for e in json.load(f).get("findings", []):
                    if e.get("status", "open") == "open":
                        sigs.add(e["signature"])
        except FileNotFoundError:
            pass
        if os.environ.get("VF_NO_KNOWN"):
            sigs = set()
        _KNOWN = sigs
    return _KNOWN


def entered() -> None:
    with NoTracing():
        COUNTS["entered"] += 1
        del EXPLAIN[:]


def reached() -> bool:
    """Call where the oracle is about to be evaluated on an interesting case.

    Returns True when this run is the reachability twin (the harness must then return False so that
    CrossHair reports the twin as refuted)."""
    with NoTracing():
        COUNTS["reached"] += 1
        return TWIN


def pruned() -> bool:
    """the scenario ended early because the chosen event is not enabled in the current situation
    (nothing to judge on this path); returns the value the harness should return."""
    with NoTracing():
        COUNTS["pruned"] += 1
    return True


def fail(why: str, signature: str | None = None) -> bool:
    """Record why the oracle failed; returns the value the harness should return.

    A failure whose signature is listed as an open known finding is suppressed (returns True) so that
    any other violation of the same property is still reported."""
    with NoTracing():
        if signature is not None and signature in known_signatures():
            COUNTS["known_hits"] += 1
            return True
        EXPLAIN.append(why if signature is None else f"[{signature}] {why}")
        return False
