"""Independent Noise_NNpsk0_25519_ChaChaPoly_SHA256 responder + ESPHome noise framing helpers.

Written from the Noise Protocol Framework specification (rev 34: sections 4 "Crypto functions",
5 "Processing rules", 9 "Pre-shared symmetric keys") using only hashlib / hmac and the primitives
X25519 and ChaCha20-Poly1305 of `cryptography`.  It shares no code with the `noise` package or with
aioesphomeapi, so a session that completes against it is evidence of interoperability and not of
self-consistency.

Handshake pattern  NNpsk0:
    -> psk, e
    <- e, ee
ESPHome specifics (api_frame_helper of the firmware): prologue b"NoiseAPIInit\\x00\\x00"; frames are
0x01 | BE16 length | body; the client sends an empty "hello" frame followed by a handshake frame
whose body is 0x00 + noise message; the server answers with a hello frame (0x01 chosen protocol,
optional NUL-terminated device name) and a handshake frame (0x00 + noise message, or 0x01 + error
text); afterwards every frame body is a transport ciphertext of BE16 type | BE16 length | payload.
Everything here is concrete (never symbolic): it runs natively and under `NoTracing()`.
"""
from __future__ import annotations

import hashlib
import hmac

from cryptography.exceptions import InvalidTag
from cryptography.hazmat.primitives.asymmetric.x25519 import X25519PrivateKey, X25519PublicKey
from cryptography.hazmat.primitives.ciphers.aead import ChaCha20Poly1305
from cryptography.hazmat.primitives.serialization import Encoding, PublicFormat

PROTOCOL_NAME = b"Noise_NNpsk0_25519_ChaChaPoly_SHA256"
PROLOGUE = b"NoiseAPIInit\x00\x00"
HASHLEN = 32
DHLEN = 32
TAGLEN = 16
# fixed responder ephemeral (any 32 bytes are a valid X25519 scalar): runs are deterministic
DEFAULT_EPHEMERAL = bytes((7 * i + 3) % 256 for i in range(32))


class NoiseRefError(Exception):
    """the peer's message is not acceptable to a conformant responder."""


def _hash(data: bytes) -> bytes:
    return hashlib.sha256(data).digest()


def _hmac(key: bytes, data: bytes) -> bytes:
    return hmac.new(key, data, hashlib.sha256).digest()


def hkdf(chaining_key: bytes, ikm: bytes, n: int):
    """Noise HKDF (section 4.3)."""
    temp = _hmac(chaining_key, ikm)
    o1 = _hmac(temp, b"\x01")
    o2 = _hmac(temp, o1 + b"\x02")
    if n == 2:
        return o1, o2
    o3 = _hmac(temp, o2 + b"\x03")
    return o1, o2, o3


def nonce_bytes(n: int) -> bytes:
    """ChaChaPoly nonce: 32 bits of zeros followed by the little-endian 64-bit counter."""
    if not 0 <= n < 2**64 - 1:
        raise NoiseRefError("nonce exhausted")
    return b"\x00\x00\x00\x00" + n.to_bytes(8, "little")


def aead_encrypt(key: bytes, n: int, ad: bytes, plaintext: bytes) -> bytes:
    return ChaCha20Poly1305(key).encrypt(nonce_bytes(n), plaintext, ad)


def aead_decrypt(key: bytes, n: int, ad: bytes, ciphertext: bytes) -> bytes:
    try:
        return ChaCha20Poly1305(key).decrypt(nonce_bytes(n), ciphertext, ad)
    except InvalidTag:
        raise NoiseRefError("authentication failure") from None


class CipherState:
    """section 5.1 (transport use: ad is empty)."""

    def __init__(self, key: bytes | None = None):
        self.k = key
        self.n = 0

    def encrypt_with_ad(self, ad: bytes, plaintext: bytes) -> bytes:
        if self.k is None:
            return plaintext
        out = aead_encrypt(self.k, self.n, ad, plaintext)
        self.n += 1
        return out

    def decrypt_with_ad(self, ad: bytes, ciphertext: bytes) -> bytes:
        if self.k is None:
            return ciphertext
        out = aead_decrypt(self.k, self.n, ad, ciphertext)  # n is not advanced on failure
        self.n += 1
        return out


class SymmetricState:
    """section 5.2."""

    def __init__(self, protocol_name: bytes):
        if len(protocol_name) <= HASHLEN:
            self.h = protocol_name + bytes(HASHLEN - len(protocol_name))
        else:
            self.h = _hash(protocol_name)
        self.ck = self.h
        self.cs = CipherState()

    def mix_key(self, ikm: bytes) -> None:
        self.ck, temp_k = hkdf(self.ck, ikm, 2)
        self.cs = CipherState(temp_k[:32])

    def mix_hash(self, data: bytes) -> None:
        self.h = _hash(self.h + data)

    def mix_key_and_hash(self, ikm: bytes) -> None:
        self.ck, temp_h, temp_k = hkdf(self.ck, ikm, 3)
        self.mix_hash(temp_h)
        self.cs = CipherState(temp_k[:32])

    def encrypt_and_hash(self, plaintext: bytes) -> bytes:
        ct = self.cs.encrypt_with_ad(self.h, plaintext)
        self.mix_hash(ct)
        return ct

    def decrypt_and_hash(self, ciphertext: bytes) -> bytes:
        pt = self.cs.decrypt_with_ad(self.h, ciphertext)
        self.mix_hash(ciphertext)
        return pt

    def split(self):
        k1, k2 = hkdf(self.ck, b"", 2)
        return CipherState(k1[:32]), CipherState(k2[:32])


class Responder:
    """NNpsk0 responder.  After `write_message_2` the transport ciphers are available:
    `send` (responder -> initiator) and `recv` (initiator -> responder)."""

    def __init__(self, psk: bytes, prologue: bytes = PROLOGUE, ephemeral: bytes = DEFAULT_EPHEMERAL):
        if len(psk) != 32:
            raise ValueError("psk must be 32 bytes")
        self.psk = psk
        self.ss = SymmetricState(PROTOCOL_NAME)
        self.ss.mix_hash(prologue)
        self._e_priv = X25519PrivateKey.from_private_bytes(ephemeral)
        self.e_pub = self._e_priv.public_key().public_bytes(Encoding.Raw, PublicFormat.Raw)
        self.re: bytes | None = None
        self.send: CipherState | None = None
        self.recv: CipherState | None = None
        self.handshake_hash: bytes | None = None

    def read_message_1(self, message: bytes) -> bytes:
        """-> psk, e   (returns the payload, empty for ESPHome)."""
        # psk token
        self.ss.mix_key_and_hash(self.psk)
        # e token
        if len(message) < DHLEN:
            raise NoiseRefError("message 1 too short")
        self.re = bytes(message[:DHLEN])
        self.ss.mix_hash(self.re)
        self.ss.mix_key(self.re)  # psk handshakes: MixKey(e.public_key) after MixHash (section 9.2)
        return self.ss.decrypt_and_hash(bytes(message[DHLEN:]))

    def write_message_2(self, payload: bytes = b"") -> bytes:
        """<- e, ee."""
        assert self.re is not None
        out = self.e_pub
        self.ss.mix_hash(self.e_pub)
        self.ss.mix_key(self.e_pub)
        shared = self._e_priv.exchange(X25519PublicKey.from_public_bytes(self.re))
        self.ss.mix_key(shared)
        out += self.ss.encrypt_and_hash(payload)
        c1, c2 = self.ss.split()  # c1: initiator -> responder, c2: responder -> initiator
        self.recv, self.send = c1, c2
        self.handshake_hash = self.ss.h
        return out

    def encrypt(self, plaintext: bytes) -> bytes:
        assert self.send is not None
        return self.send.encrypt_with_ad(b"", plaintext)

    def decrypt(self, ciphertext: bytes) -> bytes:
        assert self.recv is not None
        return self.recv.decrypt_with_ad(b"", ciphertext)


# ---------------------------------------------------------------------------------------------
# ESPHome framing
# ---------------------------------------------------------------------------------------------

def frame(body: bytes) -> bytes:
    n = len(body)
    if n > 65535:
        raise ValueError("frame body too long")
    return bytes([1, n // 256, n % 256]) + bytes(body)


def server_hello_body(name: bytes | None) -> bytes:
    """0x01 (chosen protocol) followed, when the device announces a name, by name NUL."""
    if name is None:
        return b"\x01"
    return b"\x01" + bytes(name) + b"\x00"


def server_hello_frame(name: bytes | None) -> bytes:
    return frame(server_hello_body(name))


def handshake_frame(noise_message: bytes) -> bytes:
    return frame(b"\x00" + noise_message)


def error_frame(text: bytes) -> bytes:
    return frame(b"\x01" + text)


def inner(msg_type: int, payload: bytes) -> bytes:
    n = len(payload)
    return bytes([msg_type // 256, msg_type % 256, n // 256, n % 256]) + bytes(payload)


def split_frames(stream: bytes):
    """list of frame bodies, or None unless `stream` is exactly a concatenation of frames."""
    out = []
    pos = 0
    n = len(stream)
    while pos < n:
        if pos + 3 > n or stream[pos] != 1:
            return None
        ln = stream[pos + 1] * 256 + stream[pos + 2]
        if pos + 3 + ln > n:
            return None
        out.append(bytes(stream[pos + 3 : pos + 3 + ln]))
        pos += 3 + ln
    return out


def parse_client_opening(written: bytes):
    """The client's first write must be: empty hello frame, handshake frame (0x00 + message 1).
    Returns message 1 or raises NoiseRefError."""
    frames = split_frames(written)
    if frames is None or len(frames) != 2:
        raise NoiseRefError("client opening is not exactly two frames")
    if frames[0] != b"":
        raise NoiseRefError("client hello frame is not empty")
    if len(frames[1]) < 1 or frames[1][0] != 0:
        raise NoiseRefError("client handshake frame does not start with 0x00")
    return frames[1][1:]


class Device:
    """A conformant ESPHome device end: consumes the client's opening, produces the server
    opening, then encrypts/decrypts application messages."""

    def __init__(self, psk: bytes, name: bytes | None = b"dev", ephemeral: bytes = DEFAULT_EPHEMERAL):
        self.r = Responder(psk, ephemeral=ephemeral)
        self.name = name

    def accept(self, client_written: bytes):
        """returns (hello_frame, handshake_frame); on a MAC failure the second element is the
        error frame the firmware sends ("Handshake MAC failure")."""
        msg1 = parse_client_opening(client_written)
        hello = server_hello_frame(self.name)
        try:
            payload = self.r.read_message_1(msg1)
        except NoiseRefError:
            return hello, error_frame(b"Handshake MAC failure")
        if payload != b"":
            raise NoiseRefError("unexpected handshake payload")
        return hello, handshake_frame(self.r.write_message_2(b""))

    def data_frame(self, msg_type: int, payload: bytes) -> bytes:
        return frame(self.r.encrypt(inner(msg_type, payload)))

    def open_frame_body(self, body: bytes):
        """decrypt one client frame body -> (type, payload); raises NoiseRefError."""
        pt = self.r.decrypt(body)
        if len(pt) < 4:
            raise NoiseRefError("short plaintext")
        t = pt[0] * 256 + pt[1]
        ln = pt[2] * 256 + pt[3]
        if ln != len(pt) - 4:
            raise NoiseRefError("inner length mismatch")
        return t, pt[4:]


def self_test() -> None:
    """native validation against the real client helper (not a deciding step)."""
    import asyncio
    import base64

    from aioesphomeapi._frame_helper.noise import APINoiseFrameHelper

    loop = asyncio.new_event_loop()
    asyncio.set_event_loop(loop)

    class Conn:
        def __init__(self):
            self.got = []
            self.errors = []

        def process_packet(self, t, d):
            self.got.append((t, d))

        def report_fatal_error(self, e):
            self.errors.append(e)

    class Tr:
        def __init__(self):
            self.w = []
            self.closed = False

        def write(self, d):
            self.w.append(bytes(d))

        def close(self):
            self.closed = True

    for psk in (bytes(range(32)), bytes((i * 11 + 5) % 256 for i in range(32))):
        cn, tr = Conn(), Tr()
        h = APINoiseFrameHelper(connection=cn, noise_psk=base64.b64encode(psk).decode(), expected_name="dev",
                                client_info="c", log_name="x")
        h.connection_made(tr)
        dev = Device(psk, b"dev")
        hello, hs = dev.accept(tr.w[0])
        h.data_received(hello + hs)
        assert h.ready_future.done() and h.ready_future.exception() is None, "handshake did not complete"
        msgs = [(1, b""), (42, b"abc"), (65535, bytes(300))]
        h.data_received(b"".join(dev.data_frame(t, p) for t, p in msgs))
        assert cn.got == msgs and not cn.errors, (cn.got, cn.errors)
        h.write_packets([(7, b"xyz"), (8, b"")], False)
        h.write_packets([(9, bytes(250))], False)
        out = []
        for w in tr.w[1:]:
            for body in split_frames(w):
                out.append(dev.open_frame_body(body))
        assert out == [(7, b"xyz"), (8, b""), (9, bytes(250))], out
        # wrong key -> the device answers with the MAC failure error frame
        dev2 = Device(bytes(32), b"dev")
        cn2, tr2 = Conn(), Tr()
        h2 = APINoiseFrameHelper(connection=cn2, noise_psk=base64.b64encode(psk).decode(), expected_name=None,
                                 client_info="c", log_name="x")
        h2.connection_made(tr2)
        hello2, hs2 = dev2.accept(tr2.w[0])
        assert hs2 == error_frame(b"Handshake MAC failure")
    loop.close()
    print("noise_ref self-test ok")


if __name__ == "__main__":
    self_test()
