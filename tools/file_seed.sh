#!/bin/bash
# usage: tools/file_seed.sh <PROPERTY> [k]  -- verify /tmp/mut/<P>/out/m<k> in /tmp/mut/<P>/wt and file it as the next seeded/<P>-m<n>
P=$1; k=${2:-1}; src=/tmp/mut/$P/out/m$k; wt=/tmp/mut/$P/wt
[ -f $src/patch.diff ] || { echo "$P m$k: no patch"; exit 1; }
git -C $wt reset -q --hard; git -C $wt clean -fdq
(cd $wt && PYTHONPATH=$wt timeout 180 /venv/bin/python $src/demo_test.py >/dev/null 2>&1); a=$?
git -C $wt apply $src/patch.diff; ap=$?
s=$(cd $wt && PYTHONPATH=$wt /venv/bin/python -m pytest -q -p no:cacheprovider --timeout=900 2>&1 | tail -1)
(cd $wt && PYTHONPATH=$wt timeout 180 /venv/bin/python $src/demo_test.py >/dev/null 2>&1); b=$?
git -C $wt reset -q --hard; git -C $wt clean -fdq
echo "$P m$k apply=$ap demo_without=$a demo_with=$b suite=[$s]"
if [ $a = 0 ] && [ $b != 0 ] && [[ "$s" == *"401 passed"* ]] && [[ "$s" == *"1 failed"* ]]; then
  n=1; while [ -d /verif/seeded/$P-m$n ]; do n=$((n+1)); done
  d=/verif/seeded/$P-m$n; mkdir -p $d; cp $src/patch.diff $src/demo_test.py $d/
  python3 - <<PY
import json
m=json.load(open('$src/meta.json'))
json.dump({"property":"$P","breaks":m.get("summary"),"needs_to_manifest":m.get("needs_to_manifest"),"base":"repo HEAD with the fix: commits (second round)","demo_cmd":"cd <worktree> && PYTHONPATH=<worktree> /venv/bin/python demo_test.py","confirmed_by_me":{"suite_with_mutation":"$s","demo_exit_with_mutation":$b,"demo_exit_without_mutation":$a},"detected_by":None}, open('$d/meta.json','w'), indent=1)
PY
  echo "filed as $d"
else
  echo "NOT CONFIRMED: $P m$k"
fi
