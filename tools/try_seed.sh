#!/bin/bash
# usage: tools/try_seed.sh <seed-dir-name e.g. C01-m2> [property] [tier]
# applies the seeded patch to /repo, runs the check, and always reverts /repo afterwards.
S=$1; P=${2:-${S%%-*}}; T=${3:-quick}
cd /verif
if ! git -C /repo diff --quiet; then echo "/repo not clean"; exit 3; fi
git -C /repo apply /verif/seeded/$S/patch.diff || { echo "patch failed"; exit 3; }
trap 'git -C /repo checkout -- . ; git -C /repo clean -fdq' EXIT
./check $P $T > /tmp/try_$S.$P.log 2>&1
rc=$?
grep -E "VIOLATION|why:|exception:|HARNESS-ERROR|summary|KNOWN" /tmp/try_$S.$P.log | head -12
echo "exit=$rc seed=$S property=$P"
exit $rc
