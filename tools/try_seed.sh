#!/bin/bash
# usage: tools/try_seed.sh <seed-dir-name e.g. C01-m2> [property] [tier]
# Applies the seeded patch to a scratch worktree of /repo (never to /repo itself), runs the check
# against it (VF_REPO), writes evidence/replays to a scratch dir, and removes the worktree.
S=$1; P=${2:-${S%%-*}}; T=${3:-quick}
cd "$(dirname "$0")/.."
W=$(mktemp -d /tmp/vfseed.XXXXXX)
git -C /repo worktree add --detach "$W/repo" HEAD >/dev/null 2>&1 || { echo "worktree failed"; exit 3; }
trap 'git -C /repo worktree remove --force "$W/repo" >/dev/null 2>&1; rm -rf "$W"' EXIT
PATCH="$(pwd)/seeded/$S/patch.diff"; [ -f "$(pwd)/seeded/$S/patch.rebased.diff" ] && PATCH="$(pwd)/seeded/$S/patch.rebased.diff"
git -C "$W/repo" apply "$PATCH" 2>/dev/null || git -C "$W/repo" apply --3way "$PATCH" >/dev/null 2>&1 || { echo "patch failed"; exit 3; }
mkdir -p /tmp/vf_try
VF_REPO="$W/repo" VF_OUT="$W/out" ./check $P $T > /tmp/vf_try/$S.$P.log 2>&1
rc=$?
grep -E "VIOLATION|why:|exception:|HARNESS-ERROR|summary|KNOWN|INCONCLUSIVE" /tmp/vf_try/$S.$P.log | head -14
echo "exit=$rc seed=$S property=$P tier=$T log=/tmp/vf_try/$S.$P.log"
exit $rc
