#!/bin/bash
# Re-validate every kept seed against /repo HEAD: demo passes without the patch, fails with it.
cd "$(dirname "$0")/.."
W=$(mktemp -d /tmp/vfre.XXXXXX)
git -C /repo worktree add --detach "$W/repo" HEAD >/dev/null 2>&1
trap 'git -C /repo worktree remove --force "$W/repo" >/dev/null 2>&1; rm -rf "$W"' EXIT
for d in seeded/*/; do
  n=$(basename $d)
  [ -n "$1" ] && [[ "$n" != $1* ]] && continue
  demo=$(ls $d | grep -E "^demo" | head -1)
  PATCH=$d/patch.diff; [ -f $d/patch.rebased.diff ] && PATCH=$d/patch.rebased.diff
  (cd "$W/repo" && git reset -q --hard && git clean -fdq)
  (cd "$W/repo" && PYTHONPATH="$W/repo" timeout 120 /venv/bin/python "$OLDPWD/$d/$demo" >/dev/null 2>&1); a=$?
  (cd "$W/repo" && (git apply "$OLDPWD/$PATCH" 2>/dev/null || git apply --3way "$OLDPWD/$PATCH" >/dev/null 2>&1)); ap=$?
  (cd "$W/repo" && PYTHONPATH="$W/repo" timeout 120 /venv/bin/python "$OLDPWD/$d/$demo" >/dev/null 2>&1); b=$?
  echo "$n apply=$ap demo_without=$a demo_with=$b"
done
