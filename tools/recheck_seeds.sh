#!/bin/bash
# Re-validate every kept seed against /repo HEAD: demo passes without the patch, fails with it.
cd "$(dirname "$0")/.."
# demos written by the mutation agents hard-code their scratch worktree /tmp/wt/<PROPERTY>
for d in seeded/*/; do
  n=$(basename $d)
  W=/tmp/wt; mkdir -p $W; R=$W/${n%%-*}
  if [ ! -d "$R" ]; then git -C /repo worktree add --detach "$R" HEAD >/dev/null 2>&1; fi
  [ -n "$1" ] && [[ "$n" != $1* ]] && continue
  demo=$(ls $d | grep -E "^demo" | head -1)
  PATCH=$d/patch.diff; [ -f $d/patch.rebased.diff ] && PATCH=$d/patch.rebased.diff
  (cd "$R" && git reset -q --hard && git clean -fdq)
  (cd "$R" && PYTHONPATH="$R" timeout 120 /venv/bin/python "$OLDPWD/$d/$demo" >/dev/null 2>&1); a=$?
  (cd "$R" && (git apply "$OLDPWD/$PATCH" 2>/dev/null || git apply --3way "$OLDPWD/$PATCH" >/dev/null 2>&1)); ap=$?
  (cd "$R" && PYTHONPATH="$R" timeout 120 /venv/bin/python "$OLDPWD/$d/$demo" >/dev/null 2>&1); b=$?
  echo "$n apply=$ap demo_without=$a demo_with=$b"
done
for R in /tmp/wt/C*; do git -C /repo worktree remove --force "$R" >/dev/null 2>&1; done
