#!/usr/bin/env python3
"""Run the registered check of each seeded mutation against a scratch worktree with the mutation
applied and record the outcome in seeded/<id>/meta.json (detected_by) and seeded/RESULTS.md.

usage: tools/seed_matrix.py [prefix ...]     (e.g. C05 C08-m3; default: all)   env: TIER=quick|thorough, ALSO=C08 (extra property)
Never touches /repo: each run uses `git worktree add` under /tmp and VF_REPO/VF_OUT.
"""
import json
import os
import re
import subprocess
import sys
import tempfile

ROOT = os.path.dirname(os.path.dirname(os.path.abspath(__file__)))
TIER = os.environ.get("TIER", "quick")


def run_one(seed: str, prop: str) -> dict:
    d = os.path.join(ROOT, "seeded", seed)
    patch = os.path.join(d, "patch.rebased.diff")
    if not os.path.exists(patch):
        patch = os.path.join(d, "patch.diff")
    w = tempfile.mkdtemp(prefix="vfseed.")
    repo = os.path.join(w, "repo")
    try:
        subprocess.run(["git", "-C", "/repo", "worktree", "add", "--detach", repo, "HEAD"], check=True, capture_output=True)
        r = subprocess.run(["git", "-C", repo, "apply", patch], capture_output=True)
        if r.returncode != 0:
            r = subprocess.run(["git", "-C", repo, "apply", "--3way", patch], capture_output=True)
            if r.returncode != 0:
                return {"check": f"{prop} {TIER}", "exit": None, "note": "patch does not apply to HEAD"}
        env = dict(os.environ, VF_REPO=repo, VF_OUT=os.path.join(w, "out"))
        p = subprocess.run([os.path.join(ROOT, "check"), prop, TIER], cwd=ROOT, env=env, capture_output=True, text=True)
        out = p.stdout
        why = [l.strip() for l in out.splitlines() if l.strip().startswith(("why:", "exception:"))][:3]
        viol = len(re.findall(r"^VIOLATION", out, re.M))
        summ = [l for l in out.splitlines() if l.startswith("summary")]
        return {"check": f"{prop} {TIER}", "exit": p.returncode, "violations": viol, "why": why, "summary": summ[-1] if summ else ""}
    finally:
        subprocess.run(["git", "-C", "/repo", "worktree", "remove", "--force", repo], capture_output=True)
        subprocess.run(["rm", "-rf", w])


def main() -> None:
    prefixes = sys.argv[1:]
    seeds = sorted(os.listdir(os.path.join(ROOT, "seeded")))
    seeds = [s for s in seeds if os.path.isdir(os.path.join(ROOT, "seeded", s)) and (not prefixes or any(s.startswith(p) for p in prefixes))]
    also = [x for x in os.environ.get("ALSO", "").split(",") if x]
    for s in seeds:
        mp = os.path.join(ROOT, "seeded", s, "meta.json")
        meta = json.load(open(mp))
        prop = meta.get("property", s.split("-")[0])
        results = meta.get("detected_by") if isinstance(meta.get("detected_by"), list) else []
        for p in [prop] + also:
            r = run_one(s, p)
            results = [x for x in results if x.get("check") != r["check"]] + [r]
            print(s, r["check"], "exit=", r.get("exit"), (r.get("why") or [r.get("note", "")])[:1], flush=True)
        meta["detected_by"] = results
        json.dump(meta, open(mp, "w"), indent=1)
    write_table()


def write_table() -> None:
    rows = []
    for s in sorted(os.listdir(os.path.join(ROOT, "seeded"))):
        mp = os.path.join(ROOT, "seeded", s, "meta.json")
        if not os.path.exists(mp):
            continue
        meta = json.load(open(mp))
        det = meta.get("detected_by") if isinstance(meta.get("detected_by"), list) else []
        caught = [x["check"] for x in det if x.get("exit") == 1]
        missed = [x["check"] for x in det if x.get("exit") == 0]
        other = [f'{x["check"]} (exit {x.get("exit")}: {x.get("note", "harness error / inconclusive")})' for x in det if x.get("exit") not in (0, 1)]
        note = meta.get("status_note", "")
        rows.append(f"| {s} | {', '.join(caught) or '-'} | {', '.join(missed) or '-'} | {'; '.join(other + ([note] if note else [])) or ''} |")
    with open(os.path.join(ROOT, "seeded", "RESULTS.md"), "w") as f:
        f.write("# Seeded mutations vs checks (written by tools/seed_matrix.py)\n\n| seed | caught by (exit 1 + VIOLATION) | run but missed (exit 0) | notes |\n|---|---|---|---|\n")
        f.write("\n".join(rows) + "\n")


if __name__ == "__main__":
    main()
