#!/usr/bin/env python3
"""Confirm a seeded mutation produced by a sub-agent and file it under /verif/seeded/<ID>-m<k>/.

For /tmp/seed_out/<ID>/m<k>: in the scratch worktree /tmp/wt/<ID> (clean) check that
 (1) the demo passes on the unchanged tree, (2) the patch applies, (3) the 401-test suite still passes,
 (4) the demo fails with the patch; then revert.  usage: verify_seed.py C05 1
"""
import json, os, shutil, subprocess, sys

def sh(cmd, cwd, timeout=600):
    p = subprocess.run(cmd, shell=True, cwd=cwd, capture_output=True, text=True, timeout=timeout)
    return p.returncode, (p.stdout + p.stderr)

def main():
    pid, k = sys.argv[1], sys.argv[2]
    src = f"/tmp/seed_out/{pid}/m{k}"
    wt = f"/tmp/wt/{pid}"
    if not os.path.isdir(wt):
        subprocess.run(["git", "-C", "/repo", "worktree", "add", "--detach", wt, "HEAD"], check=True, capture_output=True)
    sh("git checkout -- . && git clean -fdq", wt)
    meta = json.load(open(f"{src}/meta.json"))
    demo = f"cd {wt} && /venv/bin/python {src}/demo_test.py"
    res = {}
    rc, out = sh(demo, wt); res["demo_without"] = rc
    rc, out = sh(f"git apply {src}/patch.diff", wt); res["apply"] = rc
    if rc != 0:
        print("patch does not apply", out); print(res); return 1
    rc, out = sh("/venv/bin/python -m pytest -q -p no:cacheprovider --timeout=900 2>&1 | tail -3", wt); res["suite_tail"] = out.strip().splitlines()[-1] if out.strip() else ""
    rc, out = sh(demo, wt); res["demo_with"] = rc; res["demo_with_tail"] = out.strip()[-400:]
    sh("git checkout -- . && git clean -fdq", wt)
    ok = res["demo_without"] == 0 and res["demo_with"] != 0 and "401 passed" in res["suite_tail"] and "1 failed" in res["suite_tail"]
    res["confirmed"] = ok
    print(json.dumps(res, indent=1))
    if ok:
        dst = f"/verif/seeded/{pid}-m{k}"
        os.makedirs(dst, exist_ok=True)
        shutil.copy(f"{src}/patch.diff", dst); shutil.copy(f"{src}/demo_test.py", dst)
        meta_out = {"property": pid, "breaks": meta.get("summary"), "needs_to_manifest": meta.get("needs_to_manifest"),
                    "demo_cmd": demo, "confirmed_by_me": {"worktree": wt, "suite_with_mutation": res["suite_tail"],
                    "demo_exit_with_mutation": res["demo_with"], "demo_exit_without_mutation": res["demo_without"]},
                    "detected_by": None}
        json.dump(meta_out, open(f"{dst}/meta.json", "w"), indent=1)
    return 0 if ok else 1

sys.exit(main())
