#!/bin/bash
# Offline set-up of the verification environment: a venv overlay on /venv that also sees /repo
# (current working tree) and has crosshair-tool + z3-solver from the offline wheelhouse.
set -e
cd "$(dirname "$0")"
V="$(pwd)/.venv"
if [ -x "$V/bin/crosshair" ] && "$V/bin/python" -c "import crosshair, z3, aioesphomeapi" 2>/dev/null; then
  exit 0
fi
rm -rf "$V"
/venv/bin/python -m venv "$V"
SP="$V/lib/python3.12/site-packages"
echo "import site; site.addsitedir('/venv/lib/python3.12/site-packages')" > "$SP/zz_overlay.pth"
PIP_NO_INDEX=1 "$V/bin/pip" install -q --no-index --find-links /opt/veriftools/wheels crosshair-tool z3-solver >/dev/null
"$V/bin/python" -c "import crosshair, z3, aioesphomeapi; print('setup ok: crosshair', crosshair.__version__, 'z3', z3.get_version_string(), 'repo', aioesphomeapi.__file__)"
