import asyncio
from asyncio import base_events, events
try:
    from crosshair.util import ControlFlowException
except Exception:
    class ControlFlowException(BaseException): pass

class _NoSelector:
    def __init__(self, loop): self.loop = loop
    def select(self, timeout=None):
        if timeout is not None and timeout > 0:
            self.loop._vnow = self.loop._vnow + timeout
        return []

def _run(self):
    try:
        self._context.run(self._callback, *self._args)
    except ControlFlowException:
        raise
    except (SystemExit, KeyboardInterrupt):
        raise
    except BaseException as exc:
        self._loop.exc.append({"exception": exc, "handle": None})
    self = None

class SimHandle(events.Handle):
    __slots__ = ()
    _run = _run
class SimTimerHandle(events.TimerHandle):
    __slots__ = ()
    _run = _run

class SimLoop(base_events.BaseEventLoop):
    def __init__(self):
        super().__init__()
        self._vnow = 0
        self._selector = _NoSelector(self)
        self.exc = []
        self._clock_resolution = 0
    def time(self): return self._vnow
    def __del__(self): pass
    def _process_events(self, event_list): pass
    def _write_to_self(self): pass
    def is_running(self): return True
    def call_exception_handler(self, ctx): self.exc.append(ctx)
    def _call_soon(self, callback, args, context):
        h = SimHandle(callback, args, self, context)
        self._ready.append(h)
        return h
    def call_at(self, when, callback, *args, context=None):
        import heapq
        t = SimTimerHandle(when, callback, args, self, context)
        heapq.heappush(self._scheduled, t)
        t._scheduled = True
        return t
    def _check_tasks(self):
        for t in list(asyncio.all_tasks(self)):
            if t.done() and not t.cancelled():
                e = t._exception if hasattr(t, "_exception") else None
                if isinstance(e, ControlFlowException):
                    raise e
    def turn(self):
        events._set_running_loop(self)
        try:
            self._run_once()
        finally:
            events._set_running_loop(None)
        self._check_tasks()
    def drain(self, limit=200):
        n = 0
        while self._ready and n < limit:
            self.turn(); n += 1
    def next_timer(self):
        live = [h for h in self._scheduled if not h._cancelled]
        return min(live, key=lambda h: h._when) if live else None
    def advance(self):
        if self._ready: self.drain()
        if self.next_timer() is None: return False
        self.turn(); self.drain(); return True
