import asyncio, logging
from typing import Optional, Tuple
logging.disable(logging.CRITICAL)
_LOOP = asyncio.new_event_loop(); asyncio.set_event_loop(_LOOP)
import aioesphomeapi.client as CL
from aioesphomeapi import api_pb2
from aioesphomeapi.model import APIVersion
from google.protobuf.descriptor import FieldDescriptor as FD

def make_stub(pbcls):
    desc = pbcls.DESCRIPTOR
    names = {f.name: f for f in desc.fields}
    class Stub:
        __slots__ = ("_set",)
        _names = names
        _pb = pbcls
        def __init__(self, **kw):
            object.__setattr__(self, "_set", {})
            for k, v in kw.items():
                setattr(self, k, v)
        def __setattr__(self, k, v):
            if k not in names:
                raise AttributeError(k)
            self._set[k] = v
        def __getattr__(self, k):
            if k in names:
                return self._set.get(k, names[k].default_value)
            raise AttributeError(k)
    Stub.__name__ = pbcls.__name__
    return Stub

class FakeConn:
    def __init__(self, apiv):
        self.is_connected = True
        self.api_version = apiv
        self.sent = []
        self.connected_address = None
    def send_message(self, m):
        self.sent.append(m)
    def set_log_name(self, n): pass

LightStub = make_stub(api_pb2.LightCommandRequest)
CoverStub = make_stub(api_pb2.CoverCommandRequest)

def mk(apiv):
    cli = CL.APIClient("10.0.0.1", 6053, None)
    conn = FakeConn(apiv)
    cli._connection = conn
    return cli, conn

def light(key: int, state: Optional[bool], brightness: Optional[float], color_mode: Optional[int],
          rgb: Optional[Tuple[float, float, float]], transition_length: Optional[int], effect: Optional[str]) -> bool:
    """
    pre: 0 <= key < 2**32
    pre: transition_length is None or 0 <= transition_length < 1000
    pre: effect is None or len(effect) <= 2
    post: _
    """
    cli, conn = mk(APIVersion(1, 10))
    old = CL.LightCommandRequest
    CL.LightCommandRequest = LightStub
    try:
        cli.light_command(key, state=state, brightness=brightness, color_mode=color_mode, rgb=rgb,
                          transition_length=transition_length, effect=effect)
    finally:
        CL.LightCommandRequest = old
    [req] = conn.sent
    s = dict(req._set)
    exp = {"key": key}
    if state is not None: exp["has_state"] = True; exp["state"] = state
    if brightness is not None: exp["has_brightness"] = True; exp["brightness"] = brightness
    if color_mode is not None: exp["has_color_mode"] = True; exp["color_mode"] = color_mode
    if rgb is not None:
        exp["has_rgb"] = True; exp["red"] = rgb[0]; exp["green"] = rgb[1]; exp["blue"] = rgb[2]
    if transition_length is not None:
        exp["has_transition_length"] = True; exp["transition_length"] = transition_length * 1000
    if effect is not None: exp["has_effect"] = True; exp["effect"] = effect
    if set(s) != set(exp):
        return False
    for k in exp:
        a, b = s[k], exp[k]
        if not (a is b or a == b or (a != a and b != b)):
            return False
    return True
