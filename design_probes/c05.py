import asyncio, logging
from typing import List
from unittest.mock import patch
import socket
logging.disable(logging.CRITICAL)
from simloop import SimLoop, FakeSock
from aioesphomeapi.connection import APIConnection, ConnectionParams, ConnectionState
import aioesphomeapi.connection as C
from aioesphomeapi.host_resolver import AddrInfo, IPv4Sockaddr
from aioesphomeapi.api_pb2 import HelloResponse, ConnectResponse, DisconnectRequest, PingRequest
from aioesphomeapi.core import APIConnectionError

def pkt(msg, t):
    b = msg.SerializeToString()
    return bytes([0, len(b), t]) + b

HELLO = pkt(HelloResponse(api_version_major=1, api_version_minor=10, name="dev"), 2)
CONNECT = pkt(ConnectResponse(), 4)
DISC = pkt(DisconnectRequest(), 5)
GARBAGE = b"\x05\x00\x00"

ORDER = {ConnectionState.INITIALIZED:0, ConnectionState.SOCKET_OPENED:1, ConnectionState.HANDSHAKE_COMPLETE:2, ConnectionState.CONNECTED:3, ConnectionState.CLOSED:4}

def scenario(sched: List[int]) -> bool:
    """
    pre: len(sched) == 4
    pre: all(0 <= s < 7 for s in sched)
    post: _
    """
    loop = SimLoop()
    asyncio.set_event_loop(loop)
    async def resolve(*a, **k):
        return [AddrInfo(family=socket.AF_INET, type=socket.SOCK_STREAM, proto=6, sockaddr=IPv4Sockaddr("10.0.0.1", 6053))]
    sockfut = []
    async def start_conn(*a, **k):
        f = loop.create_future(); sockfut.append(f)
        return await f
    stops = []
    with patch.object(C.hr, "async_resolve_host", resolve), patch.object(C.aiohappyeyeballs, "start_connection", start_conn):
        params = ConnectionParams(addresses=["10.0.0.1"], port=6053, password=None, client_info="c",
            keepalive=20.0, zeroconf_manager=None, noise_psk=None, expected_name=None)
        ok = [True]
        trace = []
        class Conn(APIConnection):
            def _set_connection_state(self, state):
                p = self.connection_state
                super()._set_connection_state(state)
                trace.append(state)
                if state is not p:
                    if p is ConnectionState.CLOSED or (state is not ConnectionState.CLOSED and ORDER[state] != ORDER[p] + 1):
                        ok[0] = False
        conn = Conn(params, stops.append, False, "x")
        def observe():
            if conn.is_connected != (conn.connection_state is ConnectionState.CONNECTED):
                ok[0] = False
        tasks = {}
        async def full():
            await conn.start_connection()
            await conn.finish_connection(login=True)
        loop.inject(lambda: tasks.setdefault("c", loop.create_task(full())))
        loop.run_ready(); observe()
        for s in sched:
            fh = conn._frame_helper
            if s == 0:
                if sockfut and not sockfut[0].done():
                    loop.inject(sockfut[0].set_result, FakeSock())
            elif s == 1:
                if fh is not None: loop.inject(fh.data_received, HELLO + CONNECT)
            elif s == 2:
                if fh is not None: loop.inject(fh.data_received, HELLO + CONNECT + GARBAGE)
            elif s == 3:
                if fh is not None: loop.inject(fh.data_received, HELLO + CONNECT + DISC)
            elif s == 4:
                loop.inject(conn.force_disconnect)
            elif s == 5:
                if sockfut and not sockfut[0].done():
                    loop.inject(sockfut[0].set_result, FakeSock())
                    loop.inject(conn.force_disconnect)
            elif s == 6:
                loop.fire_next_timer()
            observe()
            loop.run_ready(); observe()
        t = tasks["c"]
        if not t.done():
            t.cancel(); loop.run_ready()
    return ok[0]
