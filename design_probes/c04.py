import chbits; chbits.install()
import chnoise; chnoise.install()
import asyncio, logging, base64
from typing import List
logging.disable(logging.CRITICAL)
from cryptography.exceptions import InvalidTag
from noise.connection import NoiseConnection
from aioesphomeapi._frame_helper.noise import APINoiseFrameHelper, ESPHOME_NOISE_BACKEND
from aioesphomeapi.core import InvalidEncryptionKeyAPIError

_LOOP = asyncio.new_event_loop(); asyncio.set_event_loop(_LOOP)
PSK = base64.b64encode(bytes(range(32))).decode()

class RecConn:
    def __init__(self):
        self.got = []; self.errors = []
    def process_packet(self, t, d): self.got.append((t, d))
    def report_fatal_error(self, e): self.errors.append(e)

class Tr:
    def __init__(self): self.w = []; self.closed = False
    def write(self, d): self.w.append(bytes(d))
    def close(self): self.closed = True

def frame(b): return bytes([1, len(b) >> 8, len(b) & 255]) + b

def setup():
    cn = RecConn(); tr = Tr()
    h = APINoiseFrameHelper(connection=cn, noise_psk=PSK, expected_name=None, client_info="c", log_name="x")
    h.connection_made(tr)
    out = tr.w[0]
    # parse client hello + handshake
    assert out[:3] == b"\x01\x00\x00"
    ln = (out[4] << 8) | out[5]
    msg1 = out[6:6+ln][1:]
    r = NoiseConnection.from_name(b"Noise_NNpsk0_25519_ChaChaPoly_SHA256")
    r.set_as_responder(); r.set_psks(bytes(range(32))); r.set_prologue(b"NoiseAPIInit\x00\x00"); r.start_handshake()
    r.read_message(msg1)
    msg2 = r.write_message()
    h.data_received(frame(b"\x01dev\x00") + frame(b"\x00" + msg2))
    return cn, tr, h, r

class Ideal:
    """ideal AEAD: ciphertext i is an opaque blob; decrypt succeeds iff blob equals the one sent under that nonce."""
    def __init__(self, sent): self.sent = sent
    def decrypt(self, nonce, data, ad):
        n = int.from_bytes(nonce[4:], "little")
        if n < len(self.sent) and data == self.sent[n][0]:
            return self.sent[n][1]
        raise InvalidTag()

def tamper(blob: bytes, typ: int, which: int) -> bool:
    """
    pre: len(blob) == 20
    pre: 0 <= typ < 65536
    pre: 0 <= which <= 2
    post: _
    """
    cn, tr, h, r = setup()
    ct = [bytes([i]) * 20 for i in (1, 2, 3)]
    pts = [bytes([typ >> 8, typ & 255, 0, 1, 7 + i]) for i in range(3)]
    sent = list(zip(ct, pts))
    h._decrypt_cipher._decrypt = Ideal(sent).decrypt
    frames = [frame(c) for c in ct]
    k = 0
    while k < which: k += 1
    frames[k] = frame(bytes(blob))
    try:
        h.data_received(b"".join(frames))
    except InvalidTag as e:
        h.connection_lost(e)
    exp = [(typ, bytes([7 + i])) for i in range(3)]
    if bytes(blob) == ct[k]:
        return cn.got == exp and not cn.errors
    return cn.got == exp[:k] and len(cn.errors) >= 1 and isinstance(cn.errors[0], InvalidEncryptionKeyAPIError)
