"""CrossHair extension: keep |, ^, & symbolic on non-negative ints using linear div/mod identities."""
import operator as ops
from numbers import Integral
import z3
from crosshair.libimpl import builtinslib as bl
from crosshair.statespace import context_statespace
from crosshair.tracers import NoTracing
from crosshair.core import realize

def _runs(mask):
    """maximal runs of set bits [(lo, hi)) of a non-negative constant."""
    out = []; i = 0
    while mask >> i:
        if (mask >> i) & 1:
            lo = i
            while (mask >> i) & 1:
                i += 1
            out.append((lo, i))
        else:
            i += 1
    return out

def _and_const(space, a, m):
    # a: SymbolicInt known >= 0 ; m: int >= 0
    expr = z3.IntVal(0)
    for lo, hi in _runs(m):
        expr = expr + ((a.var / z3.IntVal(2 ** lo)) % z3.IntVal(2 ** (hi - lo))) * z3.IntVal(2 ** lo)
    return bl.SymbolicInt(z3.simplify(expr))

def _pow2_factor(e):
    """largest k such that expr is syntactically X * 2^k (0 if unknown)."""
    e = z3.simplify(e)
    if z3.is_mul(e):
        k = 0
        for ch in e.children():
            if z3.is_int_value(ch):
                v = ch.as_long()
                while v > 0 and v % 2 == 0:
                    v //= 2; k += 1
        return k
    return 0

def _nonneg(space, x):
    return space.smt_fork(x.var >= 0, probability_true=0.99)

def _bitop(op, a, b):
    with NoTracing():
        a_sym = isinstance(a, bl.SymbolicInt)
        b_sym = isinstance(b, bl.SymbolicInt)
        if not (a_sym or b_sym):
            return op(int(a), int(b))
        space = context_statespace()
        if a_sym and not b_sym:
            s, c = a, int(b)
        elif b_sym and not a_sym:
            s, c = b, int(a)
        else:
            s = c = None
        if s is not None:
            if c < 0 or not _nonneg(space, s):
                return op(realize(a), realize(b))
            if op is ops.and_:
                return _and_const(space, s, c) if c else 0
            if c == 0:
                return s
            anded = _and_const(space, s, c)
            if op is ops.or_:
                return bl.SymbolicInt(s.var + z3.IntVal(c) - anded.var)
            return bl.SymbolicInt(s.var + z3.IntVal(c) - 2 * anded.var)
        # both symbolic
        if not (_nonneg(space, a) and _nonneg(space, b)):
            return op(realize(a), realize(b))
        for x, y in ((a, b), (b, a)):
            k = _pow2_factor(y.var)
            if k and space.smt_fork(x.var < z3.IntVal(2 ** k), probability_true=0.99):
                # x < 2^k and y multiple of 2^k: disjoint bits
                if op is ops.and_:
                    return 0
                return bl.SymbolicInt(x.var + y.var)
        W = 64
        lim = z3.IntVal(2 ** W)
        if space.smt_fork(z3.And(a.var < lim, b.var < lim), probability_true=0.99):
            return bl.SymbolicInt(z3.BV2Int(op(z3.Int2BV(a.var, W), z3.Int2BV(b.var, W)), False))
        return op(realize(a), realize(b))

def install():
    def h(op, a: Integral, b: Integral):
        return _bitop(op, a, b)
    bl.setup_binop(h, {ops.or_, ops.xor, ops.and_})
    bl._BIN_OPS.clear()
