import asyncio
from typing import List
from aioesphomeapi.connection import APIConnection, ConnectionParams, ConnectionState
from aioesphomeapi.zeroconf import ZeroconfManager
from aioesphomeapi.core import PingFailedAPIError

_LOOP = asyncio.new_event_loop()
asyncio.set_event_loop(_LOOP)

class Handle:
    def __init__(self, when, cb, args):
        self.when = when; self.cb = cb; self.args = args; self.cancelled = False
    def cancel(self):
        self.cancelled = True

class StubLoop:
    def __init__(self):
        self.now = 0
        self.timers = []
    def time(self):
        return self.now
    def call_at(self, when, cb, *args):
        h = Handle(when, cb, args)
        self.timers.append(h)
        return h
    def create_future(self):
        return _LOOP.create_future()
    def next_timer(self):
        best = None
        for h in self.timers:
            if h.cancelled: continue
            if best is None or h.when < best.when:
                best = h
        return best

class StubHelper:
    def __init__(self):
        self.writes = []
    def write_packets(self, packets, debug):
        self.writes.append(packets)
    def close(self): pass
    def set_log_name(self, n): pass

def run(gaps: List[int]) -> bool:
    """
    pre: len(gaps) == 2
    pre: all(0 < g <= 7000 for g in gaps)
    post: _
    """
    K = 1000
    K2 = 2 * K  # keepalive in half-units so 4.5K is an int
    params = ConnectionParams(addresses=["x"], port=1, password=None, client_info="c",
        keepalive=K2, zeroconf_manager=None, noise_psk=None, expected_name=None)
    stops = []
    conn = APIConnection(params, stops.append, False, "x")
    loop = StubLoop()
    conn._loop = loop
    helper = StubHelper()
    conn._frame_helper = helper
    conn._set_connection_state(ConnectionState.CONNECTED)
    conn._keep_alive_timeout = 9 * K  # 4.5 * 2K, integer
    conn._async_schedule_keep_alive(loop.time())
    # arrivals at cumulative times
    arrivals = []
    t = 0
    for g in gaps:
        t = t + 2 * g
        arrivals.append(t)
    last_arrival = 0
    pings = []
    closed_at = None
    ai = 0
    steps = 0
    while closed_at is None and steps < 60:
        steps += 1
        h = loop.next_timer()
        nxt_arr = arrivals[ai] if ai < len(arrivals) else None
        if nxt_arr is not None and (h is None or nxt_arr < h.when):
            loop.now = nxt_arr
            conn.process_packet(8, b"")  # PingResponse
            ai += 1
        else:
            if h is None:
                break
            loop.now = h.when
            h.cancelled = True
            nw = len(helper.writes)
            h.cb(*h.args)
            if len(helper.writes) > nw:
                pings.append(loop.now)
            if conn.connection_state is ConnectionState.CLOSED:
                closed_at = loop.now
    if closed_at is None:
        return False
    # reference model (independent): ticks at multiples of KK=2K; ties: timer before arrival
    KK = 2 * K
    exp_pings = []
    exp_close = None
    pong_deadline = None
    pending = True
    tick = KK
    j = 0
    n = len(arrivals)
    guard = 0
    while exp_close is None and guard < 200:
        guard += 1
        # next event: arrival j, tick, pong deadline
        cand_t = tick
        kind = 0
        if pong_deadline is not None and pong_deadline <= cand_t:
            # pong deadline fires before tick if earlier or equal? timers with equal time: earlier-armed first
            if pong_deadline < cand_t:
                cand_t = pong_deadline; kind = 1
            else:
                cand_t = pong_deadline; kind = 1
        if j < n and arrivals[j] < cand_t:
            cand_t = arrivals[j]; kind = 2
        if kind == 2:
            pong_deadline = None
            pending = False
            j += 1
        elif kind == 1:
            exp_close = cand_t
        else:
            if pending:
                exp_pings.append(tick)
                if pong_deadline is None:
                    pong_deadline = tick + 9 * K
            pending = True
            tick = tick + KK
    return exp_close == closed_at and exp_pings == pings and isinstance(conn._fatal_exception, PingFailedAPIError) and stops == [False]
