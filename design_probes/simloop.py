"""Deterministic virtual-time event loop (probe)."""
import asyncio, heapq, collections
from asyncio import events

class SimTransport(asyncio.Transport):
    def __init__(self, loop, protocol):
        super().__init__()
        self.loop = loop; self.protocol = protocol
        self.writes = []; self.closed = False; self.fail_writes = None
    def write(self, data):
        if self.fail_writes is not None:
            raise self.fail_writes
        if self.closed:
            raise RuntimeError("write after close")
        self.writes.append(bytes(data))
    def close(self):
        if not self.closed:
            self.closed = True
            self.loop.call_soon(self.protocol.connection_lost, None)
    def is_closing(self): return self.closed
    def abort(self): self.close()
    def get_extra_info(self, name, default=None): return default

class FakeSock:
    def __init__(self): self.closed = False; self.type = 1
    def setblocking(self, b): pass
    def setsockopt(self, *a): pass
    def getpeername(self): return ("10.0.0.1", 6053)
    def close(self): self.closed = True
    def fileno(self): return 7

class SimLoop(asyncio.AbstractEventLoop):
    def __init__(self):
        self._now = 0.0
        self._ready = collections.deque()
        self._timers = []
        self._seq = 0
        self._closed = False
        self.exceptions = []
        self.transports = []
        self._task_factory = None
    # --- basics
    def time(self): return self._now
    def get_debug(self): return False
    def is_running(self): return True
    def is_closed(self): return self._closed
    def create_future(self): return asyncio.Future(loop=self)
    def create_task(self, coro, *, name=None, context=None):
        return asyncio.Task(coro, loop=self, name=name)
    def call_soon(self, cb, *args, context=None):
        h = asyncio.Handle(cb, args, self, context)
        self._ready.append(h)
        return h
    call_soon_threadsafe = call_soon
    def call_later(self, delay, cb, *args, context=None):
        return self.call_at(self._now + delay, cb, *args, context=context)
    def call_at(self, when, cb, *args, context=None):
        h = asyncio.TimerHandle(when, cb, args, self, context)
        self._seq += 1
        self._timers.append((when, self._seq, h))
        return h
    def _timer_handle_cancelled(self, h): pass
    def call_exception_handler(self, ctx):
        self.exceptions.append(ctx)
    def default_exception_handler(self, ctx):
        self.exceptions.append(ctx)
    async def create_connection(self, factory, sock=None, **kw):
        proto = factory()
        tr = SimTransport(self, proto)
        self.transports.append(tr)
        proto.connection_made(tr)
        return tr, proto
    async def getaddrinfo(self, *a, **k):
        raise OSError("no dns")
    # --- driving
    def run_ready(self, limit=10000):
        """Run until no ready callbacks remain (one or more loop iterations)."""
        n = 0
        events._set_running_loop(self)
        try:
            while self._ready and n < limit:
                h = self._ready.popleft()
                if not h._cancelled:
                    h._run()
                n += 1
        finally:
            events._set_running_loop(None)
        return n
    def pending_timers(self):
        return sorted((w, s, h) for (w, s, h) in self._timers if not h._cancelled)
    def fire_next_timer(self):
        live = self.pending_timers()
        if not live:
            return False
        w, s, h = live[0]
        self._timers = [(a, b, c) for (a, b, c) in self._timers if c is not h and not c._cancelled]
        if w > self._now:
            self._now = w
        self._ready.append(h)
        self.run_ready()
        return True
    def inject(self, fn, *args):
        events._set_running_loop(self)
        try:
            fn(*args)
        finally:
            events._set_running_loop(None)
