import asyncio, logging
from typing import List
from types import SimpleNamespace
logging.disable(logging.CRITICAL)
from simloop3 import SimLoop
from aioesphomeapi.reconnect_logic import ReconnectLogic
from aioesphomeapi.core import APIConnectionError, InvalidAuthAPIError, SocketAPIError
from aioesphomeapi.zeroconf import ZeroconfManager

class FakeZC:
    def __init__(self): self.listeners = []; self.zeroconf = self
    def async_add_listener(self, l, q): self.listeners.append(l)
    def async_remove_listener(self, l): self.listeners.remove(l)
    async def async_close(self): pass

class FakeClient:
    def __init__(self, loop, outcomes):
        self.loop = loop; self.outcomes = outcomes; self.i = 0
        self.address = "dev.local"; self.log_name = "dev"
        self.zeroconf_manager = ZeroconfManager()
        self.zeroconf_manager._aiozc = FakeZC()
        self.attempts = []; self.on_stop = None; self.inflight = 0; self.maxinflight = 0
    def set_cached_name_if_unset(self, n): pass
    async def start_connection(self, on_stop=None):
        self.attempts.append(self.loop.time())
        self.inflight += 1; self.maxinflight = max(self.maxinflight, self.inflight)
        try:
            o = self.outcomes[self.i] if self.i < len(self.outcomes) else 0
            self.i += 1
            self.cur = o
            self.on_stop = on_stop
            await asyncio.sleep(1)
            if o == 1: raise SocketAPIError("x")
        except Exception:
            self.inflight -= 1; raise
    async def finish_connection(self, login=False):
        try:
            await asyncio.sleep(1)
            if self.cur == 2: raise InvalidAuthAPIError("x")
        finally:
            self.inflight -= 1

def scen(outcomes: List[int]) -> bool:
    """
    pre: len(outcomes) == 3
    pre: 0 <= outcomes[0] <= 2 and 0 <= outcomes[1] <= 2 and 0 <= outcomes[2] <= 2
    post: _
    """
    loop = SimLoop(); asyncio.set_event_loop(loop)
    oc = []
    for o in outcomes:
        k = 0
        while k < o: k += 1
        oc.append(k)
    cli = FakeClient(loop, oc)
    log = []
    async def on_connect(): log.append("c")
    async def on_disconnect(e): log.append("d")
    async def on_err(e): log.append("e")
    rl = ReconnectLogic(client=cli, on_connect=on_connect, on_disconnect=on_disconnect, name="dev", on_connect_error=on_err)
    t = loop.create_task(rl.start()); loop.drain()
    for _ in range(12):
        if "c" in log: break
        if not loop.advance(): break
    # expected attempt times
    exp = [0]; tcur = 0; n = 0
    for o in oc:
        if o == 0: break
        if o == 1: tcur += 1; n += 1; w = int(round(min(1.8 ** n, 60.0)))
        else: tcur += 2; n = 100; w = 60
        tcur += w; exp.append(tcur)
    ok = cli.attempts == exp[:len(cli.attempts)] and len(cli.attempts) >= min(len(exp), 4) - 1 and cli.maxinflight <= 1
    st = loop.create_task(rl.stop()); loop.drain()
    return ok
