import chbits; chbits.install()
import asyncio, logging
from typing import List
logging.disable(logging.CRITICAL)
from aioesphomeapi._frame_helper.plain_text import APIPlaintextFrameHelper

_LOOP = asyncio.new_event_loop(); asyncio.set_event_loop(_LOOP)

class RecConn:
    def __init__(self):
        self.got = []; self.errors = []
    def process_packet(self, t, d): self.got.append((t, d))
    def report_fatal_error(self, e): self.errors.append(e)

def enc_varint(v):
    out = []
    while True:
        if v < 128:
            out.append(v); return out
        out.append(v % 128 + 128)
        v = v // 128

def concretize(n, hi):
    k = 0
    while k < hi and k < n: k += 1
    return k

def step(t1: int, t2: int, l1: int, l2: int, pay: List[int], b: int, c: int) -> bool:
    """
    pre: 0 <= t1 < 2**21 and 0 <= t2 < 2**21
    pre: 0 <= l1 <= 2 and 0 <= l2 <= 2
    pre: len(pay) == 4 and all(0 <= x < 256 for x in pay)
    pre: 0 <= b <= c <= 16
    post: _
    """
    l1 = concretize(l1, 2); l2 = concretize(l2, 2)
    p1 = pay[:l1]; p2 = pay[2:2+l2]
    e1 = [0] + enc_varint(l1) + enc_varint(t1) + p1
    e2 = [0] + enc_varint(l2) + enc_varint(t2) + p2
    S = e1 + e2
    n = len(S)
    b = concretize(b, n); c = concretize(c, n)
    if c < b:
        return True
    ends = [len(e1), n]
    frames = [(t1, bytes(p1)), (t2, bytes(p2))]
    a = max([0] + [e for e in ends if e <= b])
    a2 = max([0] + [e for e in ends if e <= c])
    cn = RecConn()
    h = APIPlaintextFrameHelper(connection=cn, client_info="x", log_name="x")
    tr = type("T", (), {"write": lambda self, d: None, "close": lambda self: None})()
    h.connection_made(tr)
    if b > a:
        h._buffer = bytes(S[a:b]); h._buffer_len = b - a
    if c == b:
        return True
    h.data_received(bytes(S[b:c]))
    exp = [f for f, e in zip(frames, ends) if b < e <= c]
    rem = bytes(S[a2:c])
    return cn.got == exp and not cn.errors and h._buffer_len == len(rem) and (h._buffer or b"")[:h._buffer_len] == rem
