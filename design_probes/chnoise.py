from crosshair import register_patch, NoTracing, realize
from crosshair.core import deep_realize
from noise.connection import NoiseConnection

def _wrap(orig):
    def patched(self, *a, **k):
        with NoTracing():
            a2 = deep_realize(a); k2 = deep_realize(k)
            r = orig(self, *a2, **k2)
            return bytes(r) if isinstance(r, (bytes, bytearray)) else r
    return patched

def install():
    for name in ("write_message", "read_message", "start_handshake", "set_psks", "set_prologue"):
        orig = getattr(NoiseConnection, name)
        register_patch(orig, _wrap(orig))
